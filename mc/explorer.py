"""Breadth-first explicit-state explorer. State = history (list of letters); the implementation state is
rebuilt by replaying the whole history in a fresh executor slot table, so every transition runs the real code.

A *system* object provides:
  initial()                 -> (mstate, ops, exp)         the constructor program and its expected observations
  letters(mstate, depth)    -> iterable of letters enabled in this model state (the bound lives here)
  step(mstate, letter)      -> (mstate2, ops, exp)        model transition + implementation ops + expected observations
  probes(mstate)            -> (ops, exp)                 invariant evaluated in every state (on clones; must not disturb)
  key(mstate)               -> hashable canonical model state (graph mode)
  terminal(mstate)          -> bool                       no letter may follow (e.g. all objects consumed / panicked)
  name                      -> str
Modes: "tree" (no merging: every letter sequence up to max_depth) and "graph" (merge on (key, probe observations))."""

from .core import admits, h8

BATCH = 4000


class Node:
    __slots__ = ("mstate", "ops", "exp", "depth", "letters")

    def __init__(self, mstate, ops, exp, depth, letters):
        self.mstate = mstate
        self.ops = ops
        self.exp = exp
        self.depth = depth
        self.letters = letters


def explore(system, ck, mode="tree", max_depth=3, max_states=None):
    st = ck.stats
    m0, ops0, exp0 = system.initial()
    root = Node(m0, list(ops0), list(exp0), 0, ())
    # check the initial state itself
    pops, pexp = system.probes(m0)
    obs = ck.run([(root.ops + pops, root.exp + pexp, {"sys": system.name, "letters": ()})], count_trace=False)
    seen = set()
    if mode == "graph":
        seen.add((system.key(m0), h8(";".join(obs[0][len(root.ops):]))))
    states = 1
    frontier = [root]
    depth = 0
    while frontier and depth < max_depth:
        depth += 1
        cand = []
        for node in frontier:
            if system.terminal(node.mstate):
                st.traces += 1
                continue
            for letter in system.letters(node.mstate, node.depth):
                m2, sops, sexp = system.step(node.mstate, letter)
                pops, pexp = system.probes(m2)
                cand.append((node, letter, m2, sops, sexp, pops, pexp))
        nxt = []
        capped = False
        for off in range(0, len(cand), BATCH):
            chunk = cand[off:off + BATCH]
            cases = []
            for (node, letter, m2, sops, sexp, pops, pexp) in chunk:
                cases.append((node.ops + sops + pops, node.exp + sexp + pexp,
                              {"sys": system.name, "letters": node.letters + (letter,)}))
            before = st.violation_count + sum(st.known.values())
            obs = ck.run(cases, count_trace=False)
            failed_any = (st.violation_count + sum(st.known.values())) != before
            for (node, letter, m2, sops, sexp, pops, pexp), o, case in zip(chunk, obs, cases):
                if failed_any:
                    # do not expand histories on which the implementation already deviated from the model
                    if o in (["CRASH"], ["HANG"]) or any(not admits(e, x) for e, x in zip(case[1], o)):
                        continue
                n2 = Node(m2, node.ops + sops, node.exp + sexp, depth, node.letters + (letter,))
                if mode == "graph":
                    k = (system.key(m2), h8(";".join(o[len(n2.ops):])))
                    if k in seen:
                        continue
                    seen.add(k)
                states += 1
                nxt.append(n2)
                if max_states and states >= max_states:
                    capped = True
                    break
            if capped:
                break
        if capped:
            st.caps.append("%s: state cap %d reached at depth %d" % (system.name, max_states, depth))
            frontier = []
            break
        frontier = nxt
    # whatever remains in the frontier at the bound are maximal histories
    st.traces += len(frontier)
    st.states += states
    st.extra["max_depth_reached"] = max(st.extra.get("max_depth_reached", 0), depth)
    return states
