"""Executor build configurations. Every configuration rebuilds from /repo's working tree
(the executor crate path-depends on /repo); cargo makes that a no-op when nothing changed."""
import os
import subprocess
import sys
import time

VERIF = os.path.dirname(os.path.dirname(os.path.abspath(__file__)))
EXECUTOR = os.path.join(VERIF, "executor")
TARGET = os.path.join(VERIF, "target")
HOOK = "--cfg cryptoxide_verif"

CONFIGS = {
    # name: (profile, rustflags, features, bin)
    "rel": ("release", HOOK, "", "cx-exec"),
    "dbg": ("dev", HOOK, "", "cx-exec"),
    "relchk": ("release", HOOK + " -C overflow-checks=on -C debug-assertions=on", "", "cx-exec"),
    "sse41": ("release", HOOK + " -C target-feature=+sse4.1", "", "cx-exec"),
    "avx": ("release", HOOK + " -C target-feature=+avx", "", "cx-exec"),
    "avx2": ("release", HOOK + " -C target-feature=+avx2", "", "cx-exec"),
    # every instruction-set extension the host CPU has (covers cfg(target_feature = ...) paths beyond the named sets, e.g. avx512*)
    "native": ("release", HOOK + " -C target-cpu=native", "", "cx-exec"),
    "fe32": ("release", HOOK, "force32", "cx-exec"),
    # vector paths and checked arithmetic together (a vector path may overflow / assert only in checked builds)
    "sse41chk": ("release", HOOK + " -C target-feature=+sse4.1 -C overflow-checks=on -C debug-assertions=on", "", "cx-exec"),
    "nativechk": ("release", HOOK + " -C target-cpu=native -C overflow-checks=on -C debug-assertions=on", "", "cx-exec"),
    # without SSE2: the crate's portable engines (ChaCha reference engine, portable BLAKE2 / SHA-2) as the ones actually selected
    "nosse2": ("release", HOOK + " -C target-feature=-sse2", "", "cx-exec"),
    "ctvictim": ("release", "", "", "cx-ctvictim"),
    "ctvictim32": ("release", "", "force32", "cx-ctvictim"),
}


def binary_path(name):
    profile, _, _, binname = CONFIGS[name]
    sub = "release" if profile == "release" else "debug"
    return os.path.join(TARGET, name, sub, binname)


def build(name, quiet=True):
    """returns (ok, log)"""
    profile, rustflags, features, binname = CONFIGS[name]
    env = dict(os.environ)
    env["CARGO_NET_OFFLINE"] = "true"
    env["CARGO_TARGET_DIR"] = os.path.join(TARGET, name)
    env["RUSTFLAGS"] = rustflags
    cmd = ["cargo", "build", "--offline", "--bin", binname]
    if profile == "release":
        cmd.append("--release")
    if features:
        cmd += ["--features", features]
    t0 = time.time()
    p = subprocess.run(cmd, cwd=EXECUTOR, env=env, stdout=subprocess.PIPE, stderr=subprocess.STDOUT, text=True)
    log = p.stdout
    ok = p.returncode == 0 and os.path.exists(binary_path(name))
    if not quiet:
        sys.stderr.write("[build %s] %s in %.1fs\n" % (name, "ok" if ok else "FAILED", time.time() - t0))
    return ok, log


def build_all(names, parallel=True):
    """build several configurations (in parallel); returns {name: (ok, log)}"""
    from concurrent.futures import ThreadPoolExecutor
    out = {}
    if not parallel or len(names) == 1:
        for n in names:
            out[n] = build(n, quiet=False)
        return out
    with ThreadPoolExecutor(max_workers=min(len(names), 8)) as ex:
        futs = {n: ex.submit(build, n, False) for n in names}
        for n, f in futs.items():
            out[n] = f.result()
    return out
