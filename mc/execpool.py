"""Driver side of the executor protocol: one long-lived cx-exec process per build configuration."""
import collections
import os
import subprocess
import threading
import time

from . import builds


class MachineryError(Exception):
    pass


# a program that produces no answer for this long is treated as hanging (the executor flushes at least every 200 ms of work)
HANG_S = float(os.environ.get("VERIF_HANG_S", "150"))

# program -> the sequence of programs (one process, in this order, the program last) that kills the executor although the program alone
# does not: deaths that depend on what the process did before (heap layout, addresses), reproduced twice in fresh processes
SEQ_CRASH = {}
HISTORY_CAP = 32 << 20
RECENT = 65536


class Executor:
    def __init__(self, build_name, wrapper=None):
        self.build = build_name
        self.path = builds.binary_path(build_name)
        self.wrapper = wrapper or []
        self.proc = None
        self.seq = 0
        self.programs_run = 0
        self.ops_run = 0
        self.restarts = 0
        self.history = []           # programs answered by the current process, oldest first
        self.history_bytes = 0
        self.last_rc = None
        self.recent = collections.deque(maxlen=RECENT)      # the last programs answered by the current process, always kept

    def _start(self):
        self.history = []
        self.history_bytes = 0
        self.recent = collections.deque(maxlen=RECENT)
        self.proc = subprocess.Popen(self.wrapper + [self.path], stdin=subprocess.PIPE, stdout=subprocess.PIPE,
                                     stderr=subprocess.DEVNULL, bufsize=1 << 16)

    def close(self):
        if self.proc is not None:
            try:
                self.proc.stdin.close()
            except Exception:
                pass
            try:
                self.proc.wait(timeout=5)
            except Exception:
                self.proc.kill()
            self.proc = None

    def _kill(self):
        if self.proc is not None:
            try:
                self.proc.kill()
                self.proc.wait(timeout=5)
            except Exception:
                pass
            self.proc = None

    def run_many(self, programs):
        """programs: list of program strings ('op;op;...'). Returns a list of observation lists.
        A program during which the executor process dies (or stops answering for HANG_S seconds and is killed) gets the observation
        list ['CRASH'] (['HANG']) after that has been reproduced on that program alone in a fresh process. Responses are
        buffered by the executor, so after a death the programs from the first unanswered one on are re-run one at a time until
        the one that dies alone is found."""
        results = [None] * len(programs)
        start = 0
        while start < len(programs):
            done, _ = self._run_batch(programs, start, results)
            if done == len(programs):
                break
            prior = list(self.history) if self.history_bytes <= HISTORY_CAP else None
            self._kill()
            self.restarts += 1
            j = done
            culprit = None
            while j < len(programs):
                alone = [None]
                d2, hung = self._run_batch([programs[j]], 0, alone)
                if d2 == 1:
                    results[j] = alone[0]
                    j += 1
                    continue
                culprit = j
                results[j] = ["HANG" if hung else "CRASH"]
                self._kill()
                break
            if culprit is None:
                culprit = self._sequence_death(prior, programs, done, results)
            start = culprit + 1
        return results

    def _sequence_death(self, prior, programs, done, results):
        """The process died during programs[done:], none of them dies alone. The same sequence (everything the dead process had run,
        then programs[done:]) is fed to a fresh process one program at a time; a death at the same program in two fresh processes is a
        crash of the code under test that depends on the history of the process (addresses), and is reported as one. Anything else
        is a machinery problem, not a verdict."""
        if prior is None:
            raise MachineryError("executor %s died on a batch but on none of its programs alone; history too large to replay (first unanswered: %s)"
                                 % (self.build, programs[done][:200]))
        seq = prior + programs[done:]
        where = []
        for attempt in range(2):
            fresh = Executor(self.build, self.wrapper)
            k = None
            try:
                limit = len(seq) if not where else where[0] + 1
                for i in range(limit):
                    alone = [None]
                    d2, hung = fresh._run_batch([seq[i]], 0, alone)
                    if d2 != 1:
                        k = (i, hung)
                        break
            finally:
                fresh._kill()
            if k is None:
                raise MachineryError("executor %s died on a batch but on none of its programs alone, and not when the whole sequence "
                                     "of %d programs is replayed (first unanswered: %s)" % (self.build, len(seq), programs[done][:200]))
            where.append(k[0])
            hung = k[1]
        if where[0] != where[1]:
            raise MachineryError("executor %s: death of the replayed sequence is not stable (%s, history %d)" % (self.build, where, len(prior)))
        # fed one program at a time the layout of the process is not the one of the batch, and the death may come earlier than in the
        # batch (at a program the dead process had answered): the sequence up to it is the counterexample all the same - a fresh
        # process dies at its last program, twice - and it is recorded with the first unanswered program of the batch
        j = max(where[0] - len(prior), 0) + done
        SEQ_CRASH[programs[j]] = seq[:where[0] + 1]
        # the programs between the first unanswered one and the culprit were answered by neither process: run them now
        for i in range(done, j):
            if results[i] is None:
                alone = [None]
                d2, _ = self._run_batch([programs[i]], 0, alone)
                if d2 != 1:
                    raise MachineryError("executor %s: unstable death at %s" % (self.build, programs[i][:200]))
                results[i] = alone[0]
        results[j] = ["HANG" if hung else "CRASH"]
        self._kill()
        return j

    def _run_batch(self, programs, start, results):
        """-> (index of the first program without an answer, killed-by-watchdog?)"""
        if self.proc is None or self.proc.poll() is not None:
            self._start()
        proc = self.proc
        base = self.seq
        n = len(programs) - start
        self.seq += n

        def writer():
            try:
                w = proc.stdin
                for i in range(start, len(programs)):
                    w.write(("%d %s\n" % (base + i - start, programs[i])).encode())
                w.write(b"FLUSH\n")
                w.flush()
            except (BrokenPipeError, ValueError, OSError):
                pass

        t = threading.Thread(target=writer, daemon=True)
        t.start()
        state = {"last": time.time(), "done": False, "hung": False}

        fin = threading.Event()

        def watchdog():
            while not state["done"]:
                fin.wait(0.5)
                if not state["done"] and time.time() - state["last"] > HANG_S:
                    state["hung"] = True
                    try:
                        proc.kill()
                    except Exception:
                        pass
                    return

        wd = threading.Thread(target=watchdog, daemon=True)
        wd.start()
        i = start
        r = proc.stdout
        try:
            while i < len(programs):
                line = r.readline()
                if not line:
                    break
                state["last"] = time.time()
                line = line.decode().rstrip("\n")
                sp = line.find(" ")
                rid = line if sp < 0 else line[:sp]
                if rid != str(base + i - start):
                    raise MachineryError("protocol error: expected id %d got %r" % (base + i - start, line[:80]))
                rest = "" if sp < 0 else line[sp + 1:]
                obs = rest.split(";") if rest else []
                results[i] = obs
                self.recent.append(programs[i])
                if self.history_bytes <= HISTORY_CAP:
                    self.history.append(programs[i])
                    self.history_bytes += len(programs[i]) + 64
                self.programs_run += 1
                self.ops_run += len(obs)
                i += 1
        finally:
            state["done"] = True
            fin.set()
            wd.join(timeout=2)
        if i < len(programs):
            # process died; writer thread ends with a broken pipe
            t.join(timeout=5)
            try:
                self.last_rc = proc.wait(timeout=5)
            except Exception:
                self.last_rc = None
            if self.last_rc == -9 and not state["hung"]:
                # SIGKILL that the watchdog did not send: the kernel's out-of-memory killer (or an operator), never the code under test
                raise MachineryError("executor %s was killed with SIGKILL from outside (out of memory?) at %s" % (self.build, programs[i][:200]))
            return i, state["hung"]
        t.join()
        return i, False

    def run(self, program):
        return self.run_many([program])[0]


_EXECUTORS = {}


def get(build_name):
    """per-process executor cache (workers are forked processes)"""
    ex = _EXECUTORS.get(build_name)
    if ex is None:
        ex = Executor(build_name)
        _EXECUTORS[build_name] = ex
    return ex


def close_all():
    for ex in _EXECUTORS.values():
        ex.close()
    _EXECUTORS.clear()
