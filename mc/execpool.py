"""Driver side of the executor protocol: one long-lived cx-exec process per build configuration."""
import os
import subprocess
import threading
import time

from . import builds


class MachineryError(Exception):
    pass


# a program that produces no answer for this long is treated as hanging (the executor flushes at least every 200 ms of work)
HANG_S = float(os.environ.get("VERIF_HANG_S", "150"))


class Executor:
    def __init__(self, build_name, wrapper=None):
        self.build = build_name
        self.path = builds.binary_path(build_name)
        self.wrapper = wrapper or []
        self.proc = None
        self.seq = 0
        self.programs_run = 0
        self.ops_run = 0
        self.restarts = 0

    def _start(self):
        self.proc = subprocess.Popen(self.wrapper + [self.path], stdin=subprocess.PIPE, stdout=subprocess.PIPE,
                                     stderr=subprocess.DEVNULL, bufsize=1 << 16)

    def close(self):
        if self.proc is not None:
            try:
                self.proc.stdin.close()
            except Exception:
                pass
            try:
                self.proc.wait(timeout=5)
            except Exception:
                self.proc.kill()
            self.proc = None

    def _kill(self):
        if self.proc is not None:
            try:
                self.proc.kill()
                self.proc.wait(timeout=5)
            except Exception:
                pass
            self.proc = None

    def run_many(self, programs):
        """programs: list of program strings ('op;op;...'). Returns a list of observation lists.
        A program during which the executor process dies (or stops answering for HANG_S seconds and is killed) gets the observation
        list ['CRASH'] (['HANG']) after that has been reproduced on that program alone in a fresh process. Responses are
        buffered by the executor, so after a death the programs from the first unanswered one on are re-run one at a time until
        the one that dies alone is found."""
        results = [None] * len(programs)
        start = 0
        while start < len(programs):
            done, _ = self._run_batch(programs, start, results)
            if done == len(programs):
                break
            self._kill()
            self.restarts += 1
            j = done
            culprit = None
            while j < len(programs):
                alone = [None]
                d2, hung = self._run_batch([programs[j]], 0, alone)
                if d2 == 1:
                    results[j] = alone[0]
                    j += 1
                    continue
                culprit = j
                results[j] = ["HANG" if hung else "CRASH"]
                self._kill()
                break
            if culprit is None:
                # nothing dies alone: machinery problem, not a verdict
                raise MachineryError("executor %s died on a batch but on none of its programs alone (first unanswered: %s)"
                                     % (self.build, programs[done][:200]))
            start = culprit + 1
        return results

    def _run_batch(self, programs, start, results):
        """-> (index of the first program without an answer, killed-by-watchdog?)"""
        if self.proc is None or self.proc.poll() is not None:
            self._start()
        proc = self.proc
        base = self.seq
        n = len(programs) - start
        self.seq += n

        def writer():
            try:
                w = proc.stdin
                for i in range(start, len(programs)):
                    w.write(("%d %s\n" % (base + i - start, programs[i])).encode())
                w.write(b"FLUSH\n")
                w.flush()
            except (BrokenPipeError, ValueError, OSError):
                pass

        t = threading.Thread(target=writer, daemon=True)
        t.start()
        state = {"last": time.time(), "done": False, "hung": False}

        def watchdog():
            while not state["done"]:
                time.sleep(0.5)
                if not state["done"] and time.time() - state["last"] > HANG_S:
                    state["hung"] = True
                    try:
                        proc.kill()
                    except Exception:
                        pass
                    return

        wd = threading.Thread(target=watchdog, daemon=True)
        wd.start()
        i = start
        r = proc.stdout
        try:
            while i < len(programs):
                line = r.readline()
                if not line:
                    break
                state["last"] = time.time()
                line = line.decode().rstrip("\n")
                sp = line.find(" ")
                rid = line if sp < 0 else line[:sp]
                if rid != str(base + i - start):
                    raise MachineryError("protocol error: expected id %d got %r" % (base + i - start, line[:80]))
                rest = "" if sp < 0 else line[sp + 1:]
                obs = rest.split(";") if rest else []
                results[i] = obs
                self.programs_run += 1
                self.ops_run += len(obs)
                i += 1
        finally:
            state["done"] = True
        if i < len(programs):
            # process died; writer thread ends with a broken pipe
            t.join(timeout=5)
            return i, state["hung"]
        t.join()
        return i, False

    def run(self, program):
        return self.run_many([program])[0]


_EXECUTORS = {}


def get(build_name):
    """per-process executor cache (workers are forked processes)"""
    ex = _EXECUTORS.get(build_name)
    if ex is None:
        ex = Executor(build_name)
        _EXECUTORS[build_name] = ex
    return ex


def close_all():
    for ex in _EXECUTORS.values():
        ex.close()
    _EXECUTORS.clear()
