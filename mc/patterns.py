"""Deterministic content patterns shared with executor/src/util.rs (pat_byte)."""
import functools

M64 = (1 << 64) - 1


def pat_byte(k, i):
    if k == 0:
        return 0x00
    if k == 1:
        return 0xFF
    if k == 2:
        return i % 251
    if k == 3:
        return 0x80
    if k == 4:
        return 0x55 if i % 2 == 0 else 0xAA
    x = (((i + 1) & M64) * 0x9E3779B97F4A7C15 + ((k * 0xD1B54A32D192ED03) & M64)) & M64
    x ^= x >> 29
    x = (x * 0xBF58476D1CE4E5B9) & M64
    x ^= x >> 32
    return x & 0xFF


@functools.lru_cache(maxsize=64)
def _stream(k, n):
    return bytes(pat_byte(k, i) for i in range(n))


def pat(k, off, ln):
    """bytes off..off+ln of pattern stream k"""
    if ln == 0:
        return b""
    if k in (0, 1, 3):
        return bytes([pat_byte(k, 0)]) * ln
    # keep one cached prefix per k, grown in powers of two
    need = off + ln
    size = 1024
    while size < need:
        size *= 2
    return _stream(k, size)[off:off + ln]


def P(k, off, ln):
    """executor argument naming pattern bytes"""
    return "p:%d:%d:%d" % (k, off, ln)


def H(b):
    """executor argument carrying literal bytes"""
    return "h:" + bytes(b).hex()


def parse_obs_bytes(o):
    """observation -> bytes (None if it is not a byte string)"""
    if o == "e":
        return b""
    try:
        return bytes.fromhex(o)
    except ValueError:
        return None


def obs_of(b):
    return "e" if len(b) == 0 else bytes(b).hex()
