"""Runner shared by every property: shard scheduling, expectation checking, determinism guard,
known-findings classification, evidence and replay files."""
import hashlib
import importlib
import json
import multiprocessing
import os
import sys
import time
import traceback

from . import builds, execpool
from .execpool import MachineryError

VERIF = builds.VERIF
EVIDENCE_DIR = os.path.join(VERIF, "evidence")
REPLAY_DIR = os.path.join(VERIF, "replays")
KNOWN_FILE = os.path.join(VERIF, "KNOWN_FINDINGS.txt")
MAX_RECORDED = 12          # violations written out per shard (all are counted)
# C16/C17/C20 re-run other properties' shards on other builds: they set these two before calling the shard function
BUILD_OVERRIDE = None
PID_OVERRIDE = None
DET_EVERY = 64             # 1 program in DET_EVERY is executed twice and must give identical observations


def h8(s):
    return int.from_bytes(hashlib.blake2b(s.encode() if isinstance(s, str) else s, digest_size=8).digest(), "little")


class Stats:
    def __init__(self):
        self.evaluations = 0        # programs executed against the implementation
        self.transitions = 0        # operations executed and compared with the model
        self.states = 0             # distinct model states visited (system specific)
        self.traces = 0             # complete histories replayed against the implementation
        self.det_replays = 0
        self.cases = set()          # hashes of distinct non-trivial cases
        self.observations = set()   # hashes of distinct observations (vacuity guard)
        self.samples = []
        self.violations = []        # recorded violation dicts
        self.violation_count = 0
        self.known = {}             # finding id -> count
        self.caps = []
        self.extra = {}

    def merge(self, o):
        self.evaluations += o.evaluations
        self.transitions += o.transitions
        self.states += o.states
        self.traces += o.traces
        self.det_replays += o.det_replays
        self.cases |= o.cases
        self.observations |= o.observations
        for s in o.samples:
            if len(self.samples) < 6:
                self.samples.append(s)
        self.violations += o.violations
        self.violation_count += o.violation_count
        for k, v in o.known.items():
            self.known[k] = self.known.get(k, 0) + v
        self.caps += o.caps
        for k, v in o.extra.items():
            if isinstance(v, (int, float)) and k.startswith("max_"):
                self.extra[k] = max(self.extra.get(k, 0), v)
            elif isinstance(v, (int, float)):
                self.extra[k] = self.extra.get(k, 0) + v
            elif isinstance(v, list):
                self.extra.setdefault(k, [])
                self.extra[k] += v
            elif isinstance(v, set):
                self.extra.setdefault(k, set())
                self.extra[k] |= v
            else:
                self.extra[k] = v


def admits(exp, obs):
    """exp: None (unconstrained) | str | tuple/list/set of alternatives | callable"""
    if exp is None:
        return True
    if isinstance(exp, str):
        return exp == obs
    if callable(exp):
        return bool(exp(obs))
    if isinstance(exp, dict):
        if "prefix" in exp:
            return obs.startswith(exp["prefix"])
        if "not" in exp:
            return obs != exp["not"] and not obs.startswith("ERR:")
        raise ValueError(exp)
    return obs in exp


def exp_repr(exp):
    if exp is None or isinstance(exp, (str, dict)):
        return exp
    if callable(exp):
        return "<predicate %s>" % getattr(exp, "__name__", "?")
    return sorted(exp)


class Checker:
    """Runs programs on one build and compares every step with the expected observation."""

    def __init__(self, pid, build="rel", classify=None, known_ids=()):
        self.pid = PID_OVERRIDE or pid
        self.build = BUILD_OVERRIDE or build
        build = self.build
        self.ex = execpool.get(build)
        self.transcript = hashlib.blake2b(digest_size=16)
        self.stats = Stats()
        self.classify = classify
        self.known_ids = set(known_ids)

    def run(self, cases, nontrivial=True, count_trace=True):
        """cases: list of (program_ops:list[str], expected:list, meta:dict|None).
        Returns the list of observation lists."""
        if not cases:
            return []
        progs = [";".join(c[0]) for c in cases]
        obs = self.ex.run_many(progs)
        st = self.stats
        # determinism guard on a fixed subset
        det_idx = [i for i, p in enumerate(progs) if h8(p) % DET_EVERY == 0]
        if det_idx:
            again = self.ex.run_many([progs[i] for i in det_idx])
            for j, i in enumerate(det_idx):
                st.det_replays += 1
                if again[j] != obs[i]:
                    # two executions of one program disagree. If either answer is one the expectation rejects, that is a wrong (and
                    # inconsistent) answer of the implementation and goes down the violation path below; if both are admitted the step is
                    # one the property leaves open (e.g. the output buffer of a rejected decryption) and nothing is concluded from it.
                    ops_i, exp_i, meta_i = cases[i]
                    a, b_ = obs[i], again[j]
                    bad = None
                    if len(b_) == len(ops_i):
                        for k, (e, x) in enumerate(zip(exp_i, b_)):
                            if not admits(e, x):
                                bad = k
                                break
                    first_ok = len(a) == len(ops_i) and all(admits(e, x) for e, x in zip(exp_i, a))
                    if bad is not None and first_ok:
                        self.violation(ops_i, bad, exp_i[bad], b_[bad], meta_i, note="answer differs between two executions of the same program")
                    elif bad is None and first_ok and b_ not in (["CRASH"], ["HANG"]):
                        st.extra["unconstrained_nondeterministic_steps"] = st.extra.get("unconstrained_nondeterministic_steps", 0) + 1
                    elif b_ in (["CRASH"], ["HANG"]) and first_ok:
                        self.violation(ops_i, 0, "no process crash, no hang", b_[0], meta_i, note="only in the second execution of the same program")
        for (ops, exp, meta), p, o in zip(cases, progs, obs):
            self.transcript.update(p.encode())
            self.transcript.update(b"\x00")
            self.transcript.update(";".join(o).encode())
            self.transcript.update(b"\x01")
            st.evaluations += 1
            st.transitions += len(ops)
            if count_trace:
                st.traces += 1
            nt = nontrivial(ops, meta) if callable(nontrivial) else nontrivial
            if nt:
                st.cases.add(h8(p))
            st.observations.add(h8(";".join(o)))
            if len(st.samples) < 3 and h8(p) % 7 == 0:
                st.samples.append(ops)
            self._compare(ops, exp, o, meta)
        return obs

    def _compare(self, ops, exp, o, meta):
        if o == ["CRASH"] or o == ["HANG"]:
            self.violation(ops, 0, "no process crash, no hang", o[0], meta)
            return
        if len(o) != len(ops):
            raise MachineryError("observation count mismatch for %s -> %s" % (ops, o))
        for i, (e, oo) in enumerate(zip(exp, o)):
            if oo.startswith("ERR:unknown") or oo.startswith("ERR:bad-") or oo.startswith("ERR:need-"):
                raise MachineryError("executor rejected op %r: %s" % (ops[i], oo))
            if not admits(e, oo):
                self.violation(ops, i, e, oo, meta)
                return

    def _history_replay(self, prog, step, exp):
        return _history_replay_impl(self.ex, prog, step, exp)

    def violation(self, ops, step, exp, observed, meta=None, note=None):
        st = self.stats
        v = {"property": self.pid, "build": self.build, "program": list(ops), "step": step,
             "expected": exp_repr(exp), "observed": observed, "meta": meta or {}, "note": note}
        kid = self.classify(v) if self.classify else None
        if kid is not None and kid in self.known_ids:
            st.known[kid] = st.known.get(kid, 0) + 1
            return
        st.violation_count += 1
        if len(st.violations) < MAX_RECORDED:
            # determinism guard: the failing program is re-run alone in fresh processes. The same wrong observation again (or a crash / hang)
            # confirms it. A *different* observation that the expectation also rejects is still a violation of this program - the
            # implementation answers wrongly and not even consistently (undefined behaviour shows up like this) - and is recorded as such.
            # Only a program that fails here but answers as expected in every fresh re-run is a machinery problem, never a verdict.
            if observed != "BUILD-FAILED" and ops:
                reruns = []
                confirmed = False
                for _ in range(3):
                    fresh = execpool.Executor(self.build)
                    try:
                        o2 = fresh.run(";".join(ops))
                    finally:
                        fresh.close()
                    reruns.append(o2)
                    if o2 in (["CRASH"], ["HANG"]) or (step < len(o2) and o2[step] == observed):
                        confirmed = True
                        break
                    if len(o2) == len(ops) and step < len(o2) and not admits(exp, o2[step]):
                        confirmed = True
                        v["note"] = ((v.get("note") or "") + " [inconsistent wrong answers across fresh processes: %r]" % (o2[step] if step < len(o2) else o2,)).strip()
                        break
                if not confirmed and observed in ("CRASH", "HANG") and ";".join(ops) in execpool.SEQ_CRASH:
                    # the process dies at this program only after the programs it had run before (reproduced twice in fresh processes
                    # by the executor pool): the whole sequence is the counterexample
                    v["sequence"] = execpool.SEQ_CRASH[";".join(ops)]
                    v["note"] = ((v.get("note") or "") + " [dies only after the %d programs the same process ran before: see 'sequence']" % (len(v["sequence"]) - 1)).strip()
                    confirmed = True
                if not confirmed:
                    # a wrong answer that the program does not give alone may depend on what the same process ran before (memory the
                    # implementation reads without having written it, state leaking between objects): everything this process has
                    # run is fed to fresh processes, one program at a time; the same rejected answer at the same place in two of
                    # them confirms it, and the sequence is the counterexample
                    seq = self._history_replay(";".join(ops), step, exp)
                    if seq is not None:
                        v["sequence"] = seq
                        v["note"] = ((v.get("note") or "") + " [wrong only after the %d programs the same process ran before: see 'sequence']" % (len(seq) - 1)).strip()
                        confirmed = True
                if not confirmed:
                    raise MachineryError("violation did not reproduce in a fresh process: %s" % ops)
            st.violations.append(v)


def _sequence_answer(build, seq, prog, step, exp, stop_at=None):
    """feed seq to a fresh executor one program at a time; -> index of the first occurrence of prog whose answer the expectation
    rejects (a death counts), or None"""
    fresh = execpool.Executor(build)
    try:
        for i, p in enumerate(seq if stop_at is None else seq[:stop_at + 1]):
            alone = [None]
            d2, hung = fresh._run_batch([p], 0, alone)
            if d2 != 1:
                return i if p == prog else None
            o = alone[0]
            if p == prog and (len(o) <= step or not admits(exp, o[step])):
                return i
    finally:
        fresh._kill()
    return None


def _history_replay_impl(ex, prog, step, exp):
    # first the recent past only (state leaking from the programs run just before is the common case, and short sequences make
    # short counterexamples): the last 1, 8, 64, 512, 4096, 65536 programs before the latest occurrence of the failing one
    recent = list(ex.recent)
    if prog in recent:
        last = len(recent) - 1 - recent[::-1].index(prog)
        for k in (1, 8, 64, 512, 4096, 65536):
            tail = recent[max(0, last - k):last + 1]
            first = _sequence_answer(ex.build, tail, prog, step, exp)
            if first is not None and _sequence_answer(ex.build, tail, prog, step, exp, stop_at=first) == first:
                return tail[:first + 1]
            if last - k <= 0:
                break
    if ex.history_bytes > execpool.HISTORY_CAP:
        return None
    hist = list(ex.history)
    if prog not in hist:
        return None
    first = _sequence_answer(ex.build, hist, prog, step, exp)
    if first is None:
        return None
    again = _sequence_answer(ex.build, hist, prog, step, exp, stop_at=first)
    if again != first:
        return None
    return hist[:first + 1]


def load_known():
    """returns {property: {finding id: text}} for `known:` lines"""
    known = {}
    if not os.path.exists(KNOWN_FILE):
        return known
    for line in open(KNOWN_FILE):
        line = line.strip()
        if not line.startswith("known:"):
            continue
        fields = line[len("known:"):].split()
        kv = dict(f.split("=", 1) for f in fields if "=" in f and f.split("=", 1)[0] in ("property", "id"))
        text = " ".join(f for f in fields if not (f.startswith("property=") or f.startswith("id=")))
        if "property" in kv and "id" in kv:
            known.setdefault(kv["property"], {})[kv["id"]] = text
    return known


def _limit_memory():
    """wall / RSS caps live inside the engine: a shard that tries to grow beyond the cap fails as machinery, it does not take the host down"""
    try:
        import resource
        cap = int(os.environ.get("VERIF_SHARD_MEM_GB", "10")) << 30
        resource.setrlimit(resource.RLIMIT_AS, (cap, cap))
    except Exception:
        pass


def _worker(job):
    global BUILD_OVERRIDE
    modname, fname, arg, tier = job[:4]
    build = job[4] if len(job) > 4 else None
    try:
        mod = importlib.import_module(modname)
        BUILD_OVERRIDE = build
        t0 = time.time()
        try:
            st = getattr(mod, fname)(arg, tier)
        finally:
            BUILD_OVERRIDE = None
            if os.environ.get("VERIF_SHARD_TIMES"):
                sys.stderr.write("SHARDTIME %.1f %s %s %r %s\n" % (time.time() - t0, modname, fname, arg, build))
        if build:
            st.extra = {"programs_on_extra_builds": st.evaluations}
            for v in st.violations:
                v["note"] = ((v.get("note") or "") + " [own corpus re-run on build %s]" % build).strip()
        return ("ok", st)
    except MachineryError as e:
        return ("machinery", str(e))
    except Exception:
        return ("machinery", traceback.format_exc())


def run_property(pid, tier, jobs=None):
    t0 = time.time()
    modname = "props.%s" % pid.lower()
    mod = importlib.import_module(modname)
    seed = int(os.environ.get("VERIF_SEED", "0") or 0)
    needed = list(mod.builds_needed(tier))
    total = Stats()
    # the property's own shards re-run on other builds of the crate (checked-arithmetic profile, vector paths, 32-bit backend):
    # each observation is compared with the same model; a configuration that does not build is skipped and reported, not a verdict
    extra = []
    if hasattr(mod, "extra_builds") and not os.environ.get("VERIF_NO_EXTRA_BUILDS"):
        extra = [(b, sel) for (b, sel) in mod.extra_builds(tier) if b not in needed]
    extra_names = [b for b, _ in extra]
    # builds (always from /repo's current working tree)
    res = builds.build_all(needed + extra_names)
    build_fail = {n: log for n, (ok, log) in res.items() if not ok and n in needed}
    extra_unavailable = sorted(n for n, (ok, log) in res.items() if not ok and n in extra_names)
    for n in extra_unavailable:
        sys.stderr.write("[%s] extra configuration %s does not build on this tree; own corpus not re-run on it\n" % (pid, n))
    if build_fail:
        handled = getattr(mod, "on_build_failure", None)
        unhandled = dict(build_fail)
        if handled:
            unhandled = handled(build_fail, total)
        if unhandled:
            for n, log in unhandled.items():
                sys.stderr.write("build of configuration %s failed:\n%s\n" % (n, log[-3000:]))
            sys.stderr.write("MACHINERY: cannot build executor configuration(s) %s\n" % sorted(unhandled))
            return 2
    # model self-validation
    if hasattr(mod, "validate_models"):
        try:
            mod.validate_models(tier)
        except Exception:
            sys.stderr.write("MACHINERY: model self-validation failed\n" + traceback.format_exc())
            return 2
    shards = mod.shards(tier) if not build_fail else mod.shards_after_build_failure(tier, build_fail)
    nproc = jobs or int(os.environ.get("VERIF_JOBS", "0") or 0) or min(16, os.cpu_count() or 4)
    joblist = [(modname, f, a, tier) for (f, a) in shards]
    if not build_fail:
        for b, sel in extra:
            if b in extra_unavailable:
                continue
            joblist += [(modname, f, a, tier, b) for (f, a) in shards if sel is None or sel(f, a)]
    total.extra["extra_builds_unavailable"] = extra_unavailable
    machinery = []
    if joblist:
        if nproc == 1 or len(joblist) == 1:
            results = map(_worker, joblist)
        else:
            ctx = multiprocessing.get_context("fork")
            pool = ctx.Pool(min(nproc, len(joblist)), initializer=_limit_memory)
            results = pool.imap_unordered(_worker, joblist, chunksize=1)
        for kind, val in results:
            if kind == "ok":
                total.merge(val)
            else:
                machinery.append(val)
        if nproc != 1 and len(joblist) != 1:
            pool.close()
            pool.join()
    execpool.close_all()
    if machinery:
        sys.stderr.write("MACHINERY: %d shard(s) failed:\n%s\n" % (len(machinery), machinery[0][-4000:]))
        return 2
    if hasattr(mod, "post"):
        mod.post(total, tier)
    wall = time.time() - t0
    # report
    known = load_known().get(pid, {})
    for kid, cnt in sorted(total.known.items()):
        print("KNOWN-FINDING: property=%s id=%s %s (%d cases this run)" % (pid, kid, known.get(kid, ""), cnt))
    os.makedirs(REPLAY_DIR, exist_ok=True)
    replay_paths = []
    for i, v in enumerate(total.violations[:MAX_RECORDED]):
        path = os.path.join(REPLAY_DIR, "%s-%d.json" % (pid, i))
        with open(path, "w") as f:
            json.dump(v, f, indent=1, default=str)
        replay_paths.append(path)
    write_evidence(pid, tier, seed, total, wall, mod, needed + [b for b in extra_names if b not in extra_unavailable])
    sys.stderr.write("[%s %s] programs=%d ops=%d states=%d traces=%d distinct_cases=%d distinct_obs=%d det_replays=%d "
                     "violations=%d known=%s wall=%.1fs\n"
                     % (pid, tier, total.evaluations, total.transitions, total.states, total.traces, len(total.cases),
                        len(total.observations), total.det_replays, total.violation_count, dict(total.known), wall))
    if total.violation_count:
        for p in replay_paths[:3]:
            print("VIOLATION property=%s replay=%s" % (pid, p))
        if not replay_paths:
            print("VIOLATION property=%s replay=none" % pid)
        return 1
    return 0


def write_evidence(pid, tier, seed, st, wall, mod, needed):
    os.makedirs(EVIDENCE_DIR, exist_ok=True)
    cov = {
        "states": max(st.states, 0),
        "transitions": st.transitions,
        "traces_validated_against_impl": st.traces,
        "evaluations": st.evaluations,
        "distinct_nontrivial": len(st.cases),
        "distinct_observations": len(st.observations),
        "rule": getattr(mod, "RULE", ""),
        "samples": st.samples[:5] or [["<none>"]],
        "determinism_replays": st.det_replays,
        "builds": list(needed),
        "caps_hit": st.caps,
        "exhaustive": len(st.caps) == 0,
        "bound_completed": mod.bounds(tier) if hasattr(mod, "bounds") else {},
        "known_findings_seen": dict(st.known),
    }
    for k, v in st.extra.items():
        if isinstance(v, set):
            v = len(v)
        cov[k] = v
    ev = {
        "property_id": pid, "tier": tier, "seed": seed, "level": "model_checking",
        "coverage": cov, "assumptions": list(getattr(mod, "ASSUMPTIONS", [])),
        "wall_s": round(wall, 2), "violations": st.violation_count,
    }
    path = os.path.join(EVIDENCE_DIR, "%s.json" % pid)
    tmp = path + ".tmp"
    with open(tmp, "w") as f:
        json.dump(ev, f, indent=1, default=str)
    os.replace(tmp, path)


def replay(path):
    """re-run one recorded violation against the current tree, without the explorer"""
    v = json.load(open(path))
    try:
        mod = importlib.import_module("props.%s" % v["property"].lower())
    except Exception:
        mod = None
    if mod is not None and hasattr(mod, "replay") and v["build"] in ("ctvictim", "ctvictim32"):
        ok, log = builds.build(v["build"])
        if not ok:
            print("MACHINERY: cannot build %s" % v["build"])
            return 2
        if mod.replay(v):
            print("replay: the current tree gives the expected observation")
            return 0
        print("VIOLATION property=%s replay=%s" % (v["property"], path))
        return 1
    if not v.get("program"):
        print("this record has no replayable program (%s): re-run ./check %s" % (v.get("note") or v.get("observed"), v["property"]))
        return 2
    ok, log = builds.build(v["build"])
    if not ok:
        sys.stderr.write(log[-2000:])
        print("MACHINERY: cannot build %s" % v["build"])
        return 2
    if v.get("sequence"):
        ex = execpool.Executor(v["build"])
        died = None
        try:
            for i, prog in enumerate(v["sequence"]):
                alone = [None]
                d2, hung = ex._run_batch([prog], 0, alone)
                if d2 != 1:
                    died = i
                    break
        finally:
            ex._kill()
        if v.get("observed") in ("CRASH", "HANG"):
            print("sequence of %d programs in one process; recorded: the process dies at the last one" % len(v["sequence"]))
            print("last    : %s" % v["sequence"][-1][:300])
            if died is None:
                print("replay: the current tree runs the whole sequence")
                return 0
            print("now     : the process dies at program %d of %d" % (died + 1, len(v["sequence"])))
            print("VIOLATION property=%s replay=%s" % (v["property"], path))
            return 1
        print("sequence of %d programs in one process; recorded: the last one answers %r at step %d" % (len(v["sequence"]), v["observed"], v["step"]))
        print("last    : %s" % v["sequence"][-1][:300])
        exp = v["expected"]
        if isinstance(exp, str) and exp.startswith("<predicate"):
            print("the expectation of this record is a predicate: re-run ./check %s" % v["property"])
            return 2
        bad = _sequence_answer(v["build"], v["sequence"], v["sequence"][-1], v["step"], exp)
        if bad is None:
            print("replay: the current tree gives the expected observation")
            return 0
        print("now     : rejected answer at program %d of %d" % (bad + 1, len(v["sequence"])))
        print("VIOLATION property=%s replay=%s" % (v["property"], path))
        return 1
    ex = execpool.Executor(v["build"])
    try:
        obs = ex.run(";".join(v["program"]))
    finally:
        ex.close()
    step = v["step"]
    got = obs[step] if step < len(obs) else obs[-1]
    exp = v["expected"]
    print("program : %s" % " ; ".join(v["program"]))
    print("step %d : %s" % (step, v["program"][step] if step < len(v["program"]) else "?"))
    print("expected: %s" % (exp,))
    print("recorded: %s" % v["observed"])
    print("now     : %s" % got)
    good = admits(exp, got) if not (isinstance(exp, str) and exp.startswith("<predicate")) else False
    if good:
        print("replay: the current tree gives the expected observation")
        return 0
    print("VIOLATION property=%s replay=%s" % (v["property"], path))
    return 1
