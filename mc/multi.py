"""Re-running other properties' shards on other executor builds (C16, C17, C20).
Each foreign shard returns its ordinary Stats plus a transcript digest (programs and observations, in order);
the owning property's post() requires the digests of all builds to be identical for every shard."""
import importlib

from . import core


def foreign_jobs(modnames, tier, builds, select=None):
    """-> list of shard args (modname, fname, arg, build) for every shard of the named property modules"""
    jobs = []
    for mn in modnames:
        mod = importlib.import_module("props." + mn)
        for (fname, arg) in mod.shards(tier):
            if fname.endswith("_component"):
                continue        # another property's shard borrowed by mn: the owner's own entry already covers it
            if select and not select(mn, fname, arg):
                continue
            for b in builds:
                jobs.append((mn, fname, arg, b))
    return jobs


def run_foreign(job, tier, pid):
    mn, fname, arg, build = job
    mod = importlib.import_module("props." + mn)
    made = []
    real_init = core.Checker.__init__

    def spy_init(self, *a, **k):
        real_init(self, *a, **k)
        made.append(self)

    core.BUILD_OVERRIDE, core.PID_OVERRIDE = build, pid
    core.Checker.__init__ = spy_init
    try:
        st = getattr(mod, fname)(arg, tier)
    finally:
        core.Checker.__init__ = real_init
        core.BUILD_OVERRIDE, core.PID_OVERRIDE = None, None
    digest = "+".join(c.transcript.hexdigest() for c in made)
    st.extra = {k: v for k, v in st.extra.items() if isinstance(v, (int, float))}
    # findings already recorded for the foreign property are not findings of this one
    st.extra["foreign_known_findings_seen"] = sum(st.known.values())
    st.known = {}
    st.extra["transcripts"] = [("%s.%s(%r)" % (mn, fname, arg), build, digest)]
    for v in st.violations:
        v.setdefault("meta", {})
        v["note"] = "corpus of %s, shard %s(%r), build %s" % (mn.upper(), fname, arg, build)
    return st


def compare_transcripts(total, pid):
    """called from post(): every shard must have the same transcript digest on every build"""
    by = {}
    for name, build, digest in total.extra.get("transcripts", []):
        by.setdefault(name, {})[build] = digest
    bad = 0
    for name, d in sorted(by.items()):
        if len(set(d.values())) > 1:
            bad += 1
            total.violation_count += 1
            if len(total.violations) < core.MAX_RECORDED:
                total.violations.append({"property": pid, "build": "+".join(sorted(d)), "program": [], "step": 0,
                                         "expected": "identical transcripts on all builds", "observed": str(d),
                                         "meta": {"shard": name}, "note": "builds disagree on shard %s" % name})
    total.extra["shards_compared_across_builds"] = len(by)
    total.extra["transcripts"] = len(total.extra.get("transcripts", []))
    return bad


def run_component(modname, fname, arg, tier, pid):
    """run one shard of another property's module as a component check of `pid` (same build as the calling shard):
    e.g. the Poly1305 accumulator-steering cases inside the AEAD properties, whose tags rest on that code"""
    mod = importlib.import_module("props." + modname)
    saved = core.PID_OVERRIDE
    core.PID_OVERRIDE = pid
    try:
        st = getattr(mod, fname)(arg, tier)
    finally:
        core.PID_OVERRIDE = saved
    st.extra = {"component_programs_from_%s" % modname.upper(): st.evaluations}
    st.known = {}
    for v in st.violations:
        v["note"] = ((v.get("note") or "") + " [component corpus of %s.%s]" % (modname.upper(), fname)).strip()
    return st
