"""Argon2d / Argon2i / Argon2id, versions 0x10 and 0x13, written from RFC 9106 sections 3.2-3.6.
H is hashlib.blake2b. Validated by the RFC 9106 section 5 vectors and OpenSSL cross vectors (models/selfcheck.py)."""
import hashlib
import struct

M64 = (1 << 64) - 1
M32 = (1 << 32) - 1
TYPES = {"d": 0, "i": 1, "id": 2}


def _le32(x):
    return struct.pack("<I", x)


def hprime(T, A):
    if T <= 64:
        return hashlib.blake2b(_le32(T) + A, digest_size=T).digest()
    r = (T + 31) // 32 - 2
    v = hashlib.blake2b(_le32(T) + A, digest_size=64).digest()
    out = [v[:32]]
    for _ in range(r - 1):
        v = hashlib.blake2b(v, digest_size=64).digest()
        out.append(v[:32])
    v = hashlib.blake2b(v, digest_size=T - 32 * r).digest()
    out.append(v)
    return b"".join(out)


def _gb(v, a, b, c, d):
    va, vb, vc, vd = v[a], v[b], v[c], v[d]
    va = (va + vb + 2 * (va & M32) * (vb & M32)) & M64
    vd ^= va
    vd = ((vd >> 32) | (vd << 32)) & M64
    vc = (vc + vd + 2 * (vc & M32) * (vd & M32)) & M64
    vb ^= vc
    vb = ((vb >> 24) | (vb << 40)) & M64
    va = (va + vb + 2 * (va & M32) * (vb & M32)) & M64
    vd ^= va
    vd = ((vd >> 16) | (vd << 48)) & M64
    vc = (vc + vd + 2 * (vc & M32) * (vd & M32)) & M64
    vb ^= vc
    vb = ((vb >> 63) | (vb << 1)) & M64
    v[a], v[b], v[c], v[d] = va, vb, vc, vd


def _p(v, idx):
    """permutation P on the 16 words of v selected by idx"""
    i = idx
    _gb(v, i[0], i[4], i[8], i[12])
    _gb(v, i[1], i[5], i[9], i[13])
    _gb(v, i[2], i[6], i[10], i[14])
    _gb(v, i[3], i[7], i[11], i[15])
    _gb(v, i[0], i[5], i[10], i[15])
    _gb(v, i[1], i[6], i[11], i[12])
    _gb(v, i[2], i[7], i[8], i[13])
    _gb(v, i[3], i[4], i[9], i[14])


_ROWS = [[16 * r + k for k in range(16)] for r in range(8)]
_COLS = [[2 * c + 16 * k + e for k in range(8) for e in (0, 1)] for c in range(8)]


def G(X, Y):
    R = [a ^ b for a, b in zip(X, Y)]
    Z = list(R)
    for row in _ROWS:
        _p(Z, row)
    for col in _COLS:
        _p(Z, col)
    return [a ^ b for a, b in zip(Z, R)]


_ZERO = [0] * 128


def ref_index(m, p, r, s, idx, same_lane, J1):
    """RFC 9106 section 3.4.2: index (within its lane) of the reference block for the block at (pass r, slice s, index idx)"""
    mp = 4 * p * (m // (4 * p))
    q = mp // p
    SL = q // 4
    if r == 0:
        W = (s * SL + idx - 1) if same_lane else (s * SL - (1 if idx == 0 else 0))
        startpos = 0
    else:
        W = (q - SL + idx - 1) if same_lane else (q - SL - (1 if idx == 0 else 0))
        startpos = ((s + 1) * SL) % q
    x = (J1 * J1) >> 32
    yy = (W * x) >> 32
    return (startpos + W - 1 - yy) % q, W


def argon2(ytype, version, t, p, m, password, salt, key, aad, taglen):
    y = TYPES[ytype]
    h0 = hashlib.blake2b(_le32(p) + _le32(taglen) + _le32(m) + _le32(t) + _le32(version) + _le32(y)
                         + _le32(len(password)) + password + _le32(len(salt)) + salt
                         + _le32(len(key)) + key + _le32(len(aad)) + aad, digest_size=64).digest()
    mp = 4 * p * (m // (4 * p))
    q = mp // p
    SL = q // 4
    B = [[None] * q for _ in range(p)]
    for i in range(p):
        B[i][0] = list(struct.unpack("<128Q", hprime(1024, h0 + _le32(0) + _le32(i))))
        B[i][1] = list(struct.unpack("<128Q", hprime(1024, h0 + _le32(1) + _le32(i))))
    for r in range(t):
        for s in range(4):
            for l in range(p):
                indep = (y == 1) or (y == 2 and r == 0 and s < 2)
                addr = None
                counter = 0
                start = 2 if (r == 0 and s == 0) else 0
                if indep and start != 0:
                    counter += 1
                    addr = G(_ZERO, G(_ZERO, [r, l, s, mp, t, y, counter] + [0] * 121))
                for idx in range(start, SL):
                    j = s * SL + idx
                    prev = B[l][(j - 1) % q]
                    if indep:
                        if idx % 128 == 0:
                            counter += 1
                            addr = G(_ZERO, G(_ZERO, [r, l, s, mp, t, y, counter] + [0] * 121))
                        w = addr[idx % 128]
                    else:
                        w = prev[0]
                    J1, J2 = w & M32, w >> 32
                    lp = l if (r == 0 and s == 0) else J2 % p
                    if r == 0:
                        if lp == l:
                            W = s * SL + idx - 1
                        else:
                            W = s * SL - (1 if idx == 0 else 0)
                        startpos = 0
                    else:
                        if lp == l:
                            W = q - SL + idx - 1
                        else:
                            W = q - SL - (1 if idx == 0 else 0)
                        startpos = ((s + 1) * SL) % q
                    x = (J1 * J1) >> 32
                    yy = (W * x) >> 32
                    zz = W - 1 - yy
                    ref = B[lp][(startpos + zz) % q]
                    nb = G(prev, ref)
                    if r > 0 and version == 0x13:
                        old = B[l][j]
                        nb = [a ^ b for a, b in zip(nb, old)]
                    B[l][j] = nb
    C = B[0][q - 1]
    for i in range(1, p):
        C = [a ^ b for a, b in zip(C, B[i][q - 1])]
    return hprime(taglen, struct.pack("<128Q", *C))


def self_check():
    pw, salt, key, ad = bytes([1] * 32), bytes([2] * 16), bytes([3] * 8), bytes([4] * 12)
    want = {"d": "512b391b6f1162975371d30919734294f868e3be3984f3c1a13a4db9fabe4acb",
            "i": "c814d9d1dc7f37aa13f0d77f2494bda1c8de6b016dd388d29952a4c4672b6ce8",
            "id": "0d640df58d78766c08c037a34a8b53c9d01ef0452d75b65eb52520e96b01e659"}
    for ty, w in want.items():
        got = argon2(ty, 0x13, 3, 4, 32, pw, salt, key, ad, 32).hex()
        if got != w:
            raise AssertionError("argon2 model KAT failed: %s %s" % (ty, got))
