"""Reference hash functions. hashlib (OpenSSL / CPython C) wherever it has the algorithm;
Keccak (pad 0x01) and BLAKE2-with-preset-counter are small python implementations that are
validated against hashlib (pad 0x06 / counter 0) before they are trusted."""
import hashlib
import struct

M64 = (1 << 64) - 1

# ---------------------------------------------------------------- variants
# name -> (block/rate bytes, digest bytes)
FIXED = {
    "sha1": (64, 20), "sha224": (64, 28), "sha256": (64, 32), "sha384": (128, 48), "sha512": (128, 64),
    "sha512_224": (128, 28), "sha512_256": (128, 32),
    "sha3_224": (144, 28), "sha3_256": (136, 32), "sha3_384": (104, 48), "sha3_512": (72, 64),
    "keccak224": (144, 28), "keccak256": (136, 32), "keccak384": (104, 48), "keccak512": (72, 64),
    "ripemd160": (64, 20),
}
HASHLIB_NAME = {"sha512_224": "sha512_224", "sha512_256": "sha512_256"}

# ---------------------------------------------------------------- Keccak
_RC = [0x0000000000000001, 0x0000000000008082, 0x800000000000808A, 0x8000000080008000, 0x000000000000808B,
       0x0000000080000001, 0x8000000080008081, 0x8000000000008009, 0x000000000000008A, 0x0000000000000088,
       0x0000000080008009, 0x000000008000000A, 0x000000008000808B, 0x800000000000008B, 0x8000000000008089,
       0x8000000000008003, 0x8000000000008002, 0x8000000000000080, 0x000000000000800A, 0x800000008000000A,
       0x8000000080008081, 0x8000000000008080, 0x0000000080000001, 0x8000000080008008]
_ROT = [[0, 36, 3, 41, 18], [1, 44, 10, 45, 2], [62, 6, 43, 15, 61], [28, 55, 25, 21, 56], [27, 20, 39, 8, 14]]


def _rol(x, n):
    n %= 64
    return ((x << n) | (x >> (64 - n))) & M64 if n else x


def keccak_f(a):
    """a: list of 25 lanes, index x + 5*y"""
    for rnd in range(24):
        c = [a[x] ^ a[x + 5] ^ a[x + 10] ^ a[x + 15] ^ a[x + 20] for x in range(5)]
        d = [c[(x - 1) % 5] ^ _rol(c[(x + 1) % 5], 1) for x in range(5)]
        a = [a[i] ^ d[i % 5] for i in range(25)]
        b = [0] * 25
        for x in range(5):
            for y in range(5):
                b[y + 5 * ((2 * x + 3 * y) % 5)] = _rol(a[x + 5 * y], _ROT[x][y])
        a = [b[i] ^ ((~b[(i % 5 + 1) % 5 + 5 * (i // 5)]) & b[(i % 5 + 2) % 5 + 5 * (i // 5)]) for i in range(25)]
        a[0] ^= _RC[rnd]
    return a


def sponge(rate, outlen, pad, msg):
    m = bytearray(msg)
    m.append(pad)
    while len(m) % rate:
        m.append(0)
    m[-1] |= 0x80
    a = [0] * 25
    for off in range(0, len(m), rate):
        blk = m[off:off + rate]
        for i in range(rate // 8):
            a[i] ^= int.from_bytes(blk[8 * i:8 * i + 8], "little")
        a = keccak_f(a)
    out = b"".join(x.to_bytes(8, "little") for x in a)
    return out[:outlen]   # all variants here have outlen <= rate


def keccak(name, msg):
    rate, outlen = FIXED[name]
    return sponge(rate, outlen, 0x01, msg)


def sha3_py(name, msg):
    rate, outlen = FIXED[name]
    return sponge(rate, outlen, 0x06, msg)


# ---------------------------------------------------------------- BLAKE2 (python, with counter offset)
_SIGMA = [
    [0, 1, 2, 3, 4, 5, 6, 7, 8, 9, 10, 11, 12, 13, 14, 15], [14, 10, 4, 8, 9, 15, 13, 6, 1, 12, 0, 2, 11, 7, 5, 3],
    [11, 8, 12, 0, 5, 2, 15, 13, 10, 14, 3, 6, 7, 1, 9, 4], [7, 9, 3, 1, 13, 12, 11, 14, 2, 6, 5, 10, 4, 0, 15, 8],
    [9, 0, 5, 7, 2, 4, 10, 15, 14, 1, 11, 12, 6, 8, 3, 13], [2, 12, 6, 10, 0, 11, 8, 3, 4, 13, 7, 5, 15, 14, 1, 9],
    [12, 5, 1, 15, 14, 13, 4, 10, 0, 7, 6, 3, 9, 2, 8, 11], [13, 11, 7, 14, 12, 1, 3, 9, 5, 0, 15, 4, 8, 6, 2, 10],
    [6, 15, 14, 9, 11, 3, 0, 8, 12, 2, 13, 7, 1, 4, 10, 5], [10, 2, 8, 4, 7, 6, 1, 5, 15, 11, 9, 14, 3, 12, 13, 0],
]
_IVB = [0x6a09e667f3bcc908, 0xbb67ae8584caa73b, 0x3c6ef372fe94f82b, 0xa54ff53a5f1d36f1,
        0x510e527fade682d1, 0x9b05688c2b3e6c1f, 0x1f83d9abfb41bd6b, 0x5be0cd19137e2179]
_IVS = [0x6A09E667, 0xBB67AE85, 0x3C6EF372, 0xA54FF53A, 0x510E527F, 0x9B05688C, 0x1F83D9AB, 0x5BE0CD19]


def _b2_compress(h, block, t, last, w, rounds, rots, iv):
    mask = (1 << w) - 1
    fmt = "<16Q" if w == 64 else "<16I"
    m = struct.unpack(fmt, block)
    v = list(h) + list(iv)
    v[12] ^= t & mask
    v[13] ^= (t >> w) & mask
    if last:
        v[14] ^= mask
    r1, r2, r3, r4 = rots

    def ror(x, n):
        return ((x >> n) | (x << (w - n))) & mask

    def g(a, b, c, d, x, y):
        v[a] = (v[a] + v[b] + x) & mask
        v[d] = ror(v[d] ^ v[a], r1)
        v[c] = (v[c] + v[d]) & mask
        v[b] = ror(v[b] ^ v[c], r2)
        v[a] = (v[a] + v[b] + y) & mask
        v[d] = ror(v[d] ^ v[a], r3)
        v[c] = (v[c] + v[d]) & mask
        v[b] = ror(v[b] ^ v[c], r4)

    for r in range(rounds):
        s = _SIGMA[r % 10]
        g(0, 4, 8, 12, m[s[0]], m[s[1]])
        g(1, 5, 9, 13, m[s[2]], m[s[3]])
        g(2, 6, 10, 14, m[s[4]], m[s[5]])
        g(3, 7, 11, 15, m[s[6]], m[s[7]])
        g(0, 5, 10, 15, m[s[8]], m[s[9]])
        g(1, 6, 11, 12, m[s[10]], m[s[11]])
        g(2, 7, 8, 13, m[s[12]], m[s[13]])
        g(3, 4, 9, 14, m[s[14]], m[s[15]])
    return [h[i] ^ v[i] ^ v[i + 8] for i in range(8)]


def blake2_py(which, msg, outlen, key=b"", counter0=0):
    """BLAKE2b ('b') / BLAKE2s ('s') with the byte counter starting at counter0 (mod 2^(2w)) before the
    key block (if any) and the message are absorbed."""
    if which == "b":
        w, bb, rounds, rots, iv = 64, 128, 12, (32, 24, 16, 63), _IVB
    else:
        w, bb, rounds, rots, iv = 32, 64, 10, (16, 12, 8, 7), _IVS
    h = list(iv)
    h[0] ^= 0x01010000 ^ (len(key) << 8) ^ outlen
    data = (key + b"\x00" * (bb - len(key)) if key else b"") + msg
    t = counter0
    cmask = (1 << (2 * w)) - 1
    # all blocks but the last
    nfull = max(0, (len(data) - 1) // bb) if data else 0
    for i in range(nfull):
        t = (t + bb) & cmask
        h = _b2_compress(h, data[i * bb:(i + 1) * bb], t, False, w, rounds, rots, iv)
    lastb = data[nfull * bb:]
    t = (t + len(lastb)) & cmask
    h = _b2_compress(h, lastb + b"\x00" * (bb - len(lastb)), t, True, w, rounds, rots, iv)
    fmt = "<8Q" if w == 64 else "<8I"
    return struct.pack(fmt, *h)[:outlen]


# ---------------------------------------------------------------- front end
def digest(name, msg):
    """fixed variants of FIXED plus 'blake2b_<bits>' / 'blake2s_<bits>'"""
    if name.startswith("keccak"):
        return keccak(name, msg)
    if name.startswith("blake2b_"):
        return hashlib.blake2b(msg, digest_size=int(name[8:]) // 8).digest()
    if name.startswith("blake2s_"):
        return hashlib.blake2s(msg, digest_size=int(name[8:]) // 8).digest()
    return hashlib.new(HASHLIB_NAME.get(name, name), msg).digest()


def blake2(which, msg, outlen, key=b""):
    if which == "b":
        return hashlib.blake2b(msg, digest_size=outlen, key=key).digest()
    return hashlib.blake2s(msg, digest_size=outlen, key=key).digest()


def block_size(name):
    if name.startswith("blake2b"):
        return 128
    if name.startswith("blake2s"):
        return 64
    return FIXED[name][0]


def digest_size(name):
    if name.startswith("blake2"):
        return int(name.split("_")[1]) // 8
    return FIXED[name][1]


def self_check(thorough=False):
    """validate the python Keccak and BLAKE2 against hashlib; raises on mismatch"""
    from mc.patterns import pat
    for name in ("sha3_224", "sha3_256", "sha3_384", "sha3_512"):
        rate = FIXED[name][0]
        lens = range(0, 2 * rate + 2) if thorough else [0, 1, rate - 2, rate - 1, rate, rate + 1, 2 * rate - 1, 2 * rate, 2 * rate + 1]
        for n in lens:
            m = pat(5, 0, n)
            assert sha3_py(name, m) == hashlib.new(name, m).digest(), ("keccak model", name, n)
    # Keccak-256 of the empty string (well known constant)
    assert keccak("keccak256", b"").hex() == "c5d2460186f7233c927e7db2dcc703c0e500b653ca82273b7bfad8045d85a470"
    assert keccak("keccak512", b"").hex().startswith("0eab42de4c3ceb9235fc91acffe746b29c29a8c366b7c60e4e67c466f36a4304")
    for which, bb, maxo in (("b", 128, 64), ("s", 64, 32)):
        for n in (0, 1, bb - 1, bb, bb + 1, 2 * bb, 2 * bb + 1, 3 * bb + 5):
            for outlen in (1, 20, maxo):
                for key in (b"", pat(6, 0, 1), pat(6, 0, maxo)):
                    m = pat(7, 3, n)
                    assert blake2_py(which, m, outlen, key) == blake2(which, m, outlen, key), ("blake2 model", which, n, outlen, len(key))
