"""Curve25519 / Ed25519 reference arithmetic on python integers: RFC 7748 section 5 (X25519) and RFC 8032
section 5.1 / 6 (Ed25519), plus the group law used by the C15 stack machines."""
import hashlib

P = (1 << 255) - 19
L = (1 << 252) + 27742317777372353535851937790883648493
D = (-121665 * pow(121666, P - 2, P)) % P
SQRTM1 = pow(2, (P - 1) // 4, P)
BY = (4 * pow(5, P - 2, P)) % P


def inv(x):
    return pow(x, P - 2, P)


# ---------------------------------------------------------------- X25519
def clamp(k):
    k = bytearray(k)
    k[0] &= 248
    k[31] &= 127
    k[31] |= 64
    return int.from_bytes(k, "little")


def x25519(k, u):
    kk = clamp(k)
    x1 = (int.from_bytes(u, "little") & ((1 << 255) - 1)) % P
    x2, z2, x3, z3 = 1, 0, x1, 1
    swap = 0
    for t in range(254, -1, -1):
        kt = (kk >> t) & 1
        swap ^= kt
        if swap:
            x2, x3 = x3, x2
            z2, z3 = z3, z2
        swap = kt
        A = (x2 + z2) % P
        AA = A * A % P
        B = (x2 - z2) % P
        BB = B * B % P
        E = (AA - BB) % P
        C = (x3 + z3) % P
        Dd = (x3 - z3) % P
        DA = Dd * A % P
        CB = C * B % P
        x3 = (DA + CB) % P
        x3 = x3 * x3 % P
        z3 = (DA - CB) % P
        z3 = x1 * (z3 * z3 % P) % P
        x2 = AA * BB % P
        z2 = E * ((AA + 121665 * E) % P) % P
    if swap:
        x2, x3 = x3, x2
        z2, z3 = z3, z2
    return (x2 * inv(z2) % P).to_bytes(32, "little")


BASE_U = (9).to_bytes(32, "little")


# ---------------------------------------------------------------- Edwards points, extended coordinates (X, Y, Z, T)
def pt_add(p1, p2):
    A = (p1[1] - p1[0]) * (p2[1] - p2[0]) % P
    B = (p1[1] + p1[0]) * (p2[1] + p2[0]) % P
    C = 2 * p1[3] * p2[3] * D % P
    Dd = 2 * p1[2] * p2[2] % P
    E, F, G, H = B - A, Dd - C, Dd + C, B + A
    return (E * F % P, G * H % P, F * G % P, E * H % P)


def pt_neg(p):
    return ((-p[0]) % P, p[1], p[2], (-p[3]) % P)


def pt_mul(s, p):
    q = (0, 1, 1, 0)
    while s > 0:
        if s & 1:
            q = pt_add(q, p)
        p = pt_add(p, p)
        s >>= 1
    return q


def pt_eq(p, q):
    return (p[0] * q[2] - q[0] * p[2]) % P == 0 and (p[1] * q[2] - q[1] * p[2]) % P == 0


def recover_x(y, sign):
    """x with x^2 = (y^2-1)/(d y^2+1) and x mod 2 == sign; None if no root. x = 0 is returned for either sign
    (permissive decoding, as ref10 and this crate do)."""
    y %= P
    x2 = (y * y - 1) * inv(D * y * y + 1) % P
    if x2 == 0:
        return 0
    x = pow(x2, (P + 3) // 8, P)
    if (x * x - x2) % P != 0:
        x = x * SQRTM1 % P
    if (x * x - x2) % P != 0:
        return None
    if (x & 1) != sign:
        x = P - x
    return x


BX = recover_x(BY, 0)
BASE = (BX, BY, 1, BX * BY % P)
IDENT = (0, 1, 1, 0)


def pt_encode(p):
    zi = inv(p[2])
    x, y = p[0] * zi % P, p[1] * zi % P
    return (y | ((x & 1) << 255)).to_bytes(32, "little")


def pt_decode(b, strict=False):
    """permissive: y is reduced mod p; strict additionally rejects y >= p and (x = 0 with sign 1)"""
    v = int.from_bytes(b, "little")
    sign = v >> 255
    y = v & ((1 << 255) - 1)
    if strict and y >= P:
        return None
    x = recover_x(y, sign)
    if x is None:
        return None
    if strict and x == 0 and sign:
        return None
    y %= P
    return (x, y, 1, x * y % P)


# precomputed doublings of the base point speed up fixed-base multiplication
_BASE_POW = []


def base_mul(s):
    if not _BASE_POW:
        p = BASE
        for _ in range(256):
            _BASE_POW.append(p)
            p = pt_add(p, p)
    q = IDENT
    i = 0
    while s:
        if s & 1:
            q = pt_add(q, _BASE_POW[i])
        s >>= 1
        i += 1
    return q


# ---------------------------------------------------------------- Ed25519 (RFC 8032 section 5.1)
def sha512(b):
    return hashlib.sha512(b).digest()


def ed_expand(seed):
    h = bytearray(sha512(seed))
    h[0] &= 248
    h[31] &= 63
    h[31] |= 64
    return bytes(h)      # 64 bytes: clamped scalar || prefix


def ed_public_from_extended(ext):
    a = int.from_bytes(ext[:32], "little")
    return pt_encode(base_mul(a))


def ed_keypair(seed):
    pub = ed_public_from_extended(ed_expand(seed))
    return seed + pub, pub


def ed_sign_extended(msg, ext, pub=None):
    a = int.from_bytes(ext[:32], "little")
    if pub is None:
        pub = pt_encode(base_mul(a))
    r = int.from_bytes(sha512(ext[32:64] + msg), "little") % L
    R = pt_encode(base_mul(r))
    h = int.from_bytes(sha512(R + pub + msg), "little") % L
    S = (r + h * a) % L
    return R + S.to_bytes(32, "little")


def ed_sign(msg, seed):
    ext = ed_expand(seed)
    return ed_sign_extended(msg, ext)


def ed_verify(msg, pub, sig):
    """the statement of C14, executed: key decodes (permissively) and is not all-zero, S < L,
    encode(S*B - h*A) == R bytewise"""
    if len(pub) != 32 or len(sig) != 64:
        return False
    A = pt_decode(pub)
    if A is None:
        return False
    if pub == bytes(32):
        return False
    S = int.from_bytes(sig[32:], "little")
    if S >= L:
        return False
    R = sig[:32]
    h = int.from_bytes(sha512(R + pub + msg), "little") % L
    chk = pt_add(base_mul(S), pt_mul(h, pt_neg(A)))
    return pt_encode(chk) == R


def ed_to_montgomery_u(pub):
    y = (int.from_bytes(pub, "little") & ((1 << 255) - 1)) % P
    return ((1 + y) * inv((1 - y) % P) % P).to_bytes(32, "little")


def ed_exchange(pub, seed):
    ext = ed_expand(seed)
    return x25519(ext[:32], ed_to_montgomery_u(pub))


def small_order_points():
    """the 8 points of order dividing 8 (canonical encodings)"""
    pts = []
    # order 1, 2
    pts.append(IDENT)
    pts.append((0, P - 1, 1, 0))
    # order 4: (+-sqrt(-1), 0)
    for x in (SQRTM1, P - SQRTM1):
        pts.append((x, 0, 1, 0))
    # order 8: y^2 = ... known y coordinate
    y8 = int.from_bytes(bytes.fromhex("26e8958fc2b227b045c3f489f2ef98f0d5dfac05d3c63339b13802886d53fc05"), "little")
    for y in (y8, P - y8):
        for sign in (0, 1):
            x = recover_x(y, sign)
            pts.append((x, y, 1, x * y % P))
    return pts


def self_check():
    # RFC 7748 section 5.2
    k = bytes.fromhex("a546e36bf0527c9d3b16154b82465edd62144c0ac1fc5a18506a2244ba449ac4")
    u = bytes.fromhex("e6db6867583030db3594c1a424b15f7c726624ec26b3353b10a903a6d0ab1c4c")
    assert x25519(k, u).hex() == "c3da55379de9c6908e94ea4df28d084f32eccf03491c71f754b4075577a28552"
    k = bytes.fromhex("4b66e9d4d1b4673c5ad22691957d6af5c11b6421e0ea01d42ca4169e7918ba0d")
    u = bytes.fromhex("e5210f12786811d3f4b7959d0538ae2c31dbe7106fc03c3efc4cd549c715a493")
    assert x25519(k, u).hex() == "95cbde9476e8907d7aade45cb4b873f88b595a68799fa152e6f8f7647aac7957"
    # one iteration
    k = u = BASE_U
    assert x25519(k, u).hex() == "422c8e7a6227d7bca1350b3e2bb7279f7897b87bb6854b783c60e80311ae3079"
    # RFC 8032 7.1 test 1, 2, 3
    for seed, pub, msg, sig in (
        ("9d61b19deffd5a60ba844af492ec2cc44449c5697b326919703bac031cae7f60", "d75a980182b10ab7d54bfed3c964073a0ee172f3daa62325af021a68f707511a", "",
         "e5564300c360ac729086e2cc806e828a84877f1eb8e5d974d873e065224901555fb8821590a33bacc61e39701cf9b46bd25bf5f0595bbe24655141438e7a100b"),
        ("4ccd089b28ff96da9db6c346ec114e0f5b8a319f35aba624da8cf6ed4fb8a6fb", "3d4017c3e843895a92b70aa74d1b7ebc9c982ccf2ec4968cc0cd55f12af4660c", "72",
         "92a009a9f0d4cab8720e820b5f642540a2b27b5416503f8fb3762223ebdb69da085ac1e43e15996e458f3613d0f11d8c387b2eaeb4302aeeb00d291612bb0c00"),
        ("c5aa8df43f9f837bedb7442f31dcb7b166d38535076f094b85ce3a2e0b4458f7", "fc51cd8e6218a1a38da47ed00230f0580816ed13ba3303ac5deb911548908025", "af82",
         "6291d657deec24024827e69c3abe01a30ce548a284743a445e3680d7db5ac3ac18ff9b538d16f290ae67f760984dc6594a7c15e9716ed28dc027beceea1ec40a")):
        seed, pub, msg, sig = map(bytes.fromhex, (seed, pub, msg, sig))
        assert ed_keypair(seed)[1] == pub
        assert ed_sign(msg, seed) == sig
        assert ed_verify(msg, pub, sig)
        bad = bytearray(sig)
        bad[3] ^= 4
        assert not ed_verify(msg, pub, bytes(bad))
    so = small_order_points()
    assert len({pt_encode(p) for p in so}) == 8
    for p in so:
        assert pt_eq(pt_mul(8, p), IDENT)
    assert pt_eq(pt_mul(L, BASE), IDENT)
