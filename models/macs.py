"""HMAC (RFC 2104), HKDF (RFC 5869), PBKDF2 (RFC 8018) over the reference hashes; scrypt via hashlib."""
import hashlib
import hmac as pyhmac

from . import hashes

_HASHLIB = {"sha1": "sha1", "sha224": "sha224", "sha256": "sha256", "sha384": "sha384", "sha512": "sha512",
            "sha512_224": "sha512_224", "sha512_256": "sha512_256", "sha3_224": "sha3_224", "sha3_256": "sha3_256",
            "sha3_384": "sha3_384", "sha3_512": "sha3_512", "ripemd160": "ripemd160"}


def kind_info(kind):
    """legacy digest kind 'name' or 'blake2b:<outlen>' -> (hash function, block size, digest size)"""
    if kind.startswith("blake2b:"):
        o = int(kind[8:])
        return (lambda m: hashes.blake2("b", m, o)), 128, o
    if kind.startswith("blake2s:"):
        o = int(kind[8:])
        return (lambda m: hashes.blake2("s", m, o)), 64, o
    b, d = hashes.FIXED[kind]
    return (lambda m: hashes.digest(kind, m)), b, d


def hmac(kind, key, msg):
    h, B, D = kind_info(kind)
    if len(key) > B:
        key = h(key)
    key = key + b"\x00" * (B - len(key))
    ipad = bytes(x ^ 0x36 for x in key)
    opad = bytes(x ^ 0x5c for x in key)
    return h(opad + h(ipad + msg))


def hkdf_extract(kind, salt, ikm):
    return hmac(kind, salt, ikm)


def hkdf_expand(kind, prk, info, L):
    _, _, D = kind_info(kind)
    t = b""
    okm = b""
    i = 0
    while len(okm) < L:
        i += 1
        assert i <= 255
        t = hmac(kind, prk, t + info + bytes([i]))
        okm += t
    return okm[:L]


def pbkdf2(kind, password, salt, c, dklen):
    if kind in _HASHLIB and kind not in ("sha512_224", "sha512_256"):
        return hashlib.pbkdf2_hmac(_HASHLIB[kind], password, salt, c, dklen)
    _, _, D = kind_info(kind)
    out = b""
    i = 0
    while len(out) < dklen:
        i += 1
        u = hmac(kind, password, salt + i.to_bytes(4, "big"))
        t = int.from_bytes(u, "big")
        for _ in range(c - 1):
            u = hmac(kind, password, u)
            t ^= int.from_bytes(u, "big")
        out += t.to_bytes(D, "big")
    return out[:dklen]


def scrypt(password, salt, log_n, r, p, dklen):
    n = 1 << log_n
    return hashlib.scrypt(password, salt=salt, n=n, r=r, p=p, dklen=dklen, maxmem=256 * 1024 * 1024)


def self_check():
    from mc.patterns import pat
    # the RFC 2104 construction above equals python's hmac module wherever hashlib has the digest
    for kind, name in _HASHLIB.items():
        B = hashes.FIXED[kind][0]
        for kl in (0, 1, B - 1, B, B + 1, 2 * B + 5):
            for ml in (0, 1, B + 3):
                k, m = pat(5, 0, kl), pat(6, 0, ml)
                assert hmac(kind, k, m) == pyhmac.new(k, m, name).digest(), ("hmac model", kind, kl, ml)
    # RFC 4231 test case 2
    assert hmac("sha256", b"Jefe", b"what do ya want for nothing?").hex() == "5bdcc146bf60754e6a042426089575c75a003f089d2739839dec58b964ec3843"
    # RFC 5869 A.1
    ikm = bytes([0x0b] * 22)
    salt = bytes(range(0x0d))
    info = bytes(range(0xf0, 0xfa))
    prk = hkdf_extract("sha256", salt, ikm)
    assert prk.hex() == "077709362c2e32df0ddc3f0dc47bba6390b6c73bb50f9c3122ec844ad7c2b3e5"
    assert hkdf_expand("sha256", prk, info, 42).hex() == ("3cb25f25faacd57a90434f64d0362f2a2d2d0a90cf1a5a4c5db02d56ecc4c5bf"
                                                          "34007208d5b887185865")
    # RFC 6070 #2 and the generic PBKDF2 against hashlib
    assert pbkdf2("sha1", b"password", b"salt", 2, 20).hex() == "ea6c014dc72d6f8ccd1ed92ace1d41f0d8de8957"
    for kind in ("sha1", "sha256", "sha512"):
        _, _, D = kind_info(kind)
        got = b""
        # generic path
        i = 0
        t = hmac(kind, b"pw", b"na" + (1).to_bytes(4, "big"))
        u = t
        for _ in range(2):
            u = hmac(kind, b"pw", u)
            t = bytes(a ^ b for a, b in zip(t, u))
        assert t == hashlib.pbkdf2_hmac(kind, b"pw", b"na", 3, D)
    # RFC 7914 section 12, second vector
    assert scrypt(b"password", b"NaCl", 10, 8, 16, 64).hex().startswith("fdbabe1c9d3472007856e7190d01e9fe7c6ad7cbc8237830e77376634b373162")
