"""Poly1305 (RFC 8439 section 2.5) and the ChaCha20-Poly1305 AEAD construction (section 2.8),
generalised to ChaCha with 8/12/20 rounds and 128-bit keys (Bernstein's constants), as the library offers them."""
from . import stream

P1305 = (1 << 130) - 5


def poly1305(key32, msg):
    r = int.from_bytes(key32[:16], "little") & 0x0ffffffc0ffffffc0ffffffc0fffffff
    s = int.from_bytes(key32[16:32], "little")
    acc = 0
    for i in range(0, len(msg), 16):
        blk = msg[i:i + 16]
        n = int.from_bytes(blk + b"\x01", "little")
        acc = ((acc + n) * r) % P1305
    return ((acc + s) & ((1 << 128) - 1)).to_bytes(16, "little")


def pad16(b):
    return b"\x00" * ((16 - len(b) % 16) % 16)


def aead_encrypt(key, nonce12, aad, pt, rounds=20):
    st = stream.Stream("chacha", rounds, key, nonce12)
    otk = st.keystream(0, 0, 32)
    ct = stream.xor(pt, st.keystream(1, 0, len(pt)))
    mac_data = aad + pad16(aad) + ct + pad16(ct) + len(aad).to_bytes(8, "little") + len(ct).to_bytes(8, "little")
    return ct, poly1305(otk, mac_data)


def aead_tag(key, nonce12, aad, ct, rounds=20):
    st = stream.Stream("chacha", rounds, key, nonce12)
    otk = st.keystream(0, 0, 32)
    mac_data = aad + pad16(aad) + ct + pad16(ct) + len(aad).to_bytes(8, "little") + len(ct).to_bytes(8, "little")
    return poly1305(otk, mac_data)


def aead_decrypt_plain(key, nonce12, ct, rounds=20):
    st = stream.Stream("chacha", rounds, key, nonce12)
    return stream.xor(ct, st.keystream(1, 0, len(ct)))
