"""Poly1305 (RFC 8439 section 2.5) and the ChaCha20-Poly1305 AEAD construction (section 2.8),
generalised to ChaCha with 8/12/20 rounds and 128-bit keys (Bernstein's constants), as the library offers them."""
from . import stream

P1305 = (1 << 130) - 5


def poly1305(key32, msg):
    r = int.from_bytes(key32[:16], "little") & 0x0ffffffc0ffffffc0ffffffc0fffffff
    s = int.from_bytes(key32[16:32], "little")
    acc = 0
    for i in range(0, len(msg), 16):
        blk = msg[i:i + 16]
        n = int.from_bytes(blk + b"\x01", "little")
        acc = ((acc + n) * r) % P1305
    return ((acc + s) & ((1 << 128) - 1)).to_bytes(16, "little")


def pad16(b):
    return b"\x00" * ((16 - len(b) % 16) % 16)


def aead_encrypt(key, nonce12, aad, pt, rounds=20):
    st = stream.Stream("chacha", rounds, key, nonce12)
    otk = st.keystream(0, 0, 32)
    ct = stream.xor(pt, st.keystream(1, 0, len(pt)))
    mac_data = aad + pad16(aad) + ct + pad16(ct) + len(aad).to_bytes(8, "little") + len(ct).to_bytes(8, "little")
    return ct, poly1305(otk, mac_data)


def aead_tag(key, nonce12, aad, ct, rounds=20):
    st = stream.Stream("chacha", rounds, key, nonce12)
    otk = st.keystream(0, 0, 32)
    mac_data = aad + pad16(aad) + ct + pad16(ct) + len(aad).to_bytes(8, "little") + len(ct).to_bytes(8, "little")
    return poly1305(otk, mac_data)


def aead_decrypt_plain(key, nonce12, ct, rounds=20):
    st = stream.Stream("chacha", rounds, key, nonce12)
    return stream.xor(ct, st.keystream(1, 0, len(ct)))


def poly1305_parts(key32, prefix, zero_blocks, suffix):
    """Poly1305 of  prefix || 16*zero_blocks zero bytes || suffix  (prefix a multiple of 16 bytes long) without walking the zero run:
    a run of n identical blocks c maps the accumulator h to  h*r^n + c*(r^n + ... + r)  (geometric sum, closed form modulo 2^130-5)."""
    assert len(prefix) % 16 == 0
    p = (1 << 130) - 5
    r = int.from_bytes(key32[:16], "little") & 0x0ffffffc0ffffffc0ffffffc0fffffff
    s = int.from_bytes(key32[16:], "little")
    h = 0
    for i in range(0, len(prefix), 16):
        h = (h + int.from_bytes(prefix[i:i + 16] + b"\x01", "little")) * r % p
    c = 1 << 128
    n = zero_blocks
    rn = pow(r, n, p)
    if r % p == 1:
        geo = n % p
    elif r % p == 0:
        geo = 0
    else:
        geo = r * (rn - 1) % p * pow(r - 1, p - 2, p) % p
    h = (h * rn + c * geo) % p
    for i in range(0, len(suffix), 16):
        blk = suffix[i:i + 16]
        h = (h + int.from_bytes(blk + b"\x01", "little")) * r % p
    return ((h + s) & ((1 << 128) - 1)).to_bytes(16, "little")


def aead_tag_zero_ciphertext(key, nonce12, aad, total_len, rounds=20, claimed_len=None):
    """the RFC 8439 tag of a ciphertext of total_len zero bytes (claimed_len: the length written into the trailer, for wrong tags)"""
    st = stream.Stream("chacha", rounds, key, nonce12)
    otk = st.keystream(0, 0, 32)
    full, rest = divmod(total_len, 16)
    tail = (bytes(16) if rest else b"") + len(aad).to_bytes(8, "little") + (total_len if claimed_len is None else claimed_len).to_bytes(8, "little")
    return poly1305_parts(otk, aad + pad16(aad), full, tail)
