"""Model self-validation: known-answer vectors from the RFCs / specifications. Run by setup.sh; each check
runs the subset it needs before producing any verdict. A failure here is a machinery error."""


def _eq(got, want, what):
    if isinstance(got, (bytes, bytearray)):
        got = bytes(got).hex()
    if got != want:
        raise AssertionError("model KAT failed: %s: got %s want %s" % (what, got, want))


SUNSCREEN = (b"Ladies and Gentlemen of the class of '99: If I could offer you only one tip for the future, "
             b"sunscreen would be it.")


def check_stream():
    from . import stream
    key = bytes(range(32))
    # RFC 8439 2.3.2 block function
    s = stream.Stream("chacha", 20, key, bytes.fromhex("000000090000004a00000000"))
    _eq(s.keystream(1, 0, 64), "10f1e7e4d13b5915500fdd1fa32071c4c7d1f4c733c068030422aa9ac3d46c4e"
        "d2826446079faa0914c2d705d98b02a2b5129cd1de164eb9cbd083e8a2503c4e", "RFC8439 2.3.2")
    # RFC 8439 2.4.2 encryption
    s = stream.Stream("chacha", 20, key, bytes.fromhex("000000000000004a00000000"))
    ct = stream.xor(SUNSCREEN, s.keystream(1, 0, len(SUNSCREEN)))
    _eq(ct[:32], "6e2e359a2568f98041ba0728dd0d6981e97e7aec1d4360c20a27afccfd9fae0b", "RFC8439 2.4.2")
    _eq(ct[-10:], "b40b8eedf2785e42874d", "RFC8439 2.4.2 tail")
    # draft-irtf-cfrg-xchacha 2.2.1 (HChaCha20) and A.3.2 (XChaCha20, first ciphertext bytes of "The dhole")
    _eq(stream.hchacha(key, bytes.fromhex("000000090000004a0000000031415927"), 20),
        "82413b4227b27bfed30e42508a877d73a0f9e4d58a74a853c12ec41326d3ecdc", "HChaCha20")
    s = stream.Stream("xchacha", 20, bytes(range(0x80, 0xa0)), bytes.fromhex("404142434445464748494a4b4c4d4e4f5051525354555658"))
    _eq(stream.xor(b"The dhole (prono", s.keystream(0, 0, 16)), "4559abba4e48c16102e8bb2c05e6947f", "XChaCha20 A.3.2")
    # original ChaCha20, draft-agl-tls-chacha20poly1305-04 vectors (also in the repository's tests)
    s = stream.Stream("chachao", 20, bytes(32), bytes(8))
    _eq(s.keystream(0, 0, 16), "76b8e0ada0f13d90405d6ae55386bd28", "ChaCha20 original zero key")
    s = stream.Stream("chachao", 20, bytes(range(32)), bytes(range(8)))
    _eq(s.keystream(0, 0, 16), "f798a189f195e66982105ffb640bb775", "ChaCha20 original 00..1f")
    # Salsa20 ECRYPT set 1 vector 0
    s = stream.Stream("salsa", 20, bytes([128] + [0] * 31), bytes(8))
    _eq(s.keystream(0, 0, 16), "e3be8fdd8beca2e3ea8ef9475b29a6e7", "Salsa20/256 set1 v0")
    s = stream.Stream("salsa", 20, bytes([128] + [0] * 15), bytes(8))
    _eq(s.keystream(0, 0, 16), "4dfa5e481da23ea09a31022050859936", "Salsa20/128 set1 v0")
    # XSalsa20 (NaCl secretbox test: first keystream bytes, from the NaCl paper "firstkey"/"nonce")
    firstkey = bytes.fromhex("1b27556473e985d462cd51197a9a46c76009549eac6474f206c4ee0844f68389")
    nonce = bytes.fromhex("69696ee955b62b73cd62bda875fc73d68219e0036b7a0b37")
    s = stream.Stream("xsalsa", 20, firstkey, nonce)
    _eq(s.keystream(0, 0, 32), "eea6a7251c1e72916d11c2cb214d3c252539121d8e234e652d651fa4c8cff880", "XSalsa20 NaCl")


def check_poly():
    from . import poly
    k = bytes.fromhex("85d6be7857556d337f4452fe42d506a80103808afb0db2fd4abff6af4149f51b")
    _eq(poly.poly1305(k, b"Cryptographic Forum Research Group"), "a8061dc1305136c6c22b8baf0c0127a9", "RFC8439 2.5.2")
    # RFC 8439 A.3 #5..#11 (wrap-around cases)
    v = [("02000000000000000000000000000000" + "00" * 16, "ff" * 16, "03000000000000000000000000000000"),
         ("02000000000000000000000000000000" + "ff" * 16, "02000000000000000000000000000000", "03000000000000000000000000000000"),
         ("01000000000000000000000000000000" + "00" * 16, "ff" * 16 + "f0" + "ff" * 15 + "11" + "00" * 15, "05000000000000000000000000000000"),
         ("01000000000000000000000000000000" + "00" * 16, "ff" * 16 + "fb" + "fe" * 15 + "01" * 16, "00000000000000000000000000000000"),
         ("02000000000000000000000000000000" + "00" * 16, "fd" + "ff" * 15, "faffffffffffffffffffffffffffffff"),
         ("01000000000000000400000000000000" + "00" * 16,
          "e33594d7505e43b900000000000000003394d7505e4379cd01000000000000000000000000000000000000000000000001000000000000000000000000000000",
          "14000000000000005500000000000000"),
         ("01000000000000000400000000000000" + "00" * 16,
          "e33594d7505e43b900000000000000003394d7505e4379cd010000000000000000000000000000000000000000000000",
          "13000000000000000000000000000000")]
    for i, (k, m, t) in enumerate(v):
        _eq(poly.poly1305(bytes.fromhex(k), bytes.fromhex(m)), t, "RFC8439 A.3 #%d" % (i + 5))
    key = bytes(range(0x80, 0xa0))
    ct, tag = poly.aead_encrypt(key, bytes.fromhex("070000004041424344454647"), bytes.fromhex("50515253c0c1c2c3c4c5c6c7"), SUNSCREEN)
    _eq(tag, "1ae10b594f09e26a7e902ecbd0600691", "RFC8439 2.8.2 tag")
    _eq(ct[:16], "d31a8d34648e60db7b86afbc53ef7ec2", "RFC8439 2.8.2 ct")


def check_macs():
    from . import macs
    macs.self_check()


def check_argon2():
    from . import argon2
    argon2.self_check()


def check_curve():
    from . import curve
    curve.self_check()


def check_cross():
    """cross vectors produced once with the OpenSSL 3.5 CLI (tools/gen_openssl_cross.py), committed in models/kats"""
    import json
    import os
    from . import argon2, curve, macs, poly, stream
    v = json.load(open(os.path.join(os.path.dirname(os.path.abspath(__file__)), "kats", "openssl_cross.json")))
    hx = bytes.fromhex
    for a in v["argon2"]:
        got = argon2.argon2(a["type"], a["version"], a["t"], a["p"], a["m"], hx(a["pw"]), hx(a["salt"]), hx(a["key"]), hx(a["ad"]), a["taglen"])
        _eq(got, a["tag"], "openssl argon2 %s v%x t%d p%d m%d T%d" % (a["type"], a["version"], a["t"], a["p"], a["m"], a["taglen"]))
    for c in v["chacha20"]:
        s = stream.Stream("chacha", 20, hx(c["key"]), hx(c["nonce"]))
        # OpenSSL carries a 32-bit counter overflow into the next state word (djb's 64-bit counter); RFC 8439 leaves the
        # overflow unspecified and the property fixes it as wrap modulo 2^32, so only the bytes before the wrap are comparable
        n = min(len(c["keystream"]) // 2, ((1 << 32) - c["counter"]) * 64)
        _eq(s.keystream(c["counter"], 0, n), c["keystream"][:2 * n], "openssl chacha20 ctr %d" % c["counter"])
    for c in v["poly1305"]:
        _eq(poly.poly1305(hx(c["key"]), hx(c["msg"])), c["tag"], "openssl poly1305")
    for c in v["scrypt"]:
        _eq(macs.scrypt(hx(c["pw"]), hx(c["salt"]), c["log_n"], c["r"], c["p"], len(c["out"]) // 2), c["out"], "openssl scrypt")
    names = {"SHA1": "sha1", "SHA256": "sha256", "SHA512": "sha512", "SHA3-256": "sha3_256", "BLAKE2B-512": "blake2b:64"}
    for c in v["hkdf"]:
        k = names[c["digest"]]
        prk = macs.hkdf_extract(k, hx(c["salt"]), hx(c["ikm"]))
        _eq(macs.hkdf_expand(k, prk, hx(c["info"]), c["L"]), c["okm"], "openssl hkdf %s" % c["digest"])
    for c in v["x25519"]:
        _eq(curve.x25519(hx(c["sk"]), curve.BASE_U), c["pub"], "openssl x25519 pub")
        _eq(curve.x25519(hx(c["sk"]), hx(c["peer_pub"])), c["shared"], "openssl x25519 shared")
    for c in v["ed25519"]:
        _eq(curve.ed_keypair(hx(c["seed"]))[1], c["pub"], "openssl ed25519 pub")
        _eq(curve.ed_sign(hx(c["msg"]), hx(c["seed"])), c["sig"], "openssl ed25519 sig")
        assert curve.ed_verify(hx(c["msg"]), hx(c["pub"]), hx(c["sig"]))


def run_all():
    from . import hashes
    hashes.self_check(thorough=True)
    check_stream()
    check_poly()
    check_macs()
    check_argon2()
    check_curve()
    check_cross()
