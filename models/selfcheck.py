"""Model self-validation run by setup.sh (each check also runs the subset it needs)."""


def run_all():
    from . import hashes
    hashes.self_check(thorough=True)
