"""ChaCha (IETF / original / XChaCha), Salsa, XSalsa, HChaCha, HSalsa keystream models.
Written from RFC 8439 section 2.1-2.4, Bernstein's ChaCha and Salsa20 specifications,
draft-irtf-cfrg-xchacha and the XSalsa20 paper. Validated by models/kats.py."""
import struct

M32 = 0xFFFFFFFF


def _rotl(x, n):
    return ((x << n) & M32) | (x >> (32 - n))


def _consts(keylen):
    c = b"expand 32-byte k" if keylen == 32 else b"expand 16-byte k"
    return list(struct.unpack("<4I", c))


def _keywords(key):
    if len(key) == 32:
        return list(struct.unpack("<8I", key))
    assert len(key) == 16
    k = list(struct.unpack("<4I", key))
    return k + k


def _chacha_rounds(x, rounds):
    x = list(x)

    def qr(a, b, c, d):
        x[a] = (x[a] + x[b]) & M32; x[d] = _rotl(x[d] ^ x[a], 16)
        x[c] = (x[c] + x[d]) & M32; x[b] = _rotl(x[b] ^ x[c], 12)
        x[a] = (x[a] + x[b]) & M32; x[d] = _rotl(x[d] ^ x[a], 8)
        x[c] = (x[c] + x[d]) & M32; x[b] = _rotl(x[b] ^ x[c], 7)

    for _ in range(rounds // 2):
        qr(0, 4, 8, 12); qr(1, 5, 9, 13); qr(2, 6, 10, 14); qr(3, 7, 11, 15)
        qr(0, 5, 10, 15); qr(1, 6, 11, 12); qr(2, 7, 8, 13); qr(3, 4, 9, 14)
    return x


def chacha_block_words(key, w12_15, rounds):
    st = _consts(len(key)) + _keywords(key) + list(w12_15)
    x = _chacha_rounds(st, rounds)
    return struct.pack("<16I", *[(a + b) & M32 for a, b in zip(x, st)])


def hchacha(key, nonce16, rounds):
    st = _consts(len(key)) + _keywords(key) + list(struct.unpack("<4I", nonce16))
    x = _chacha_rounds(st, rounds)
    return struct.pack("<8I", *(x[0:4] + x[12:16]))


def _salsa_rounds(x, rounds):
    x = list(x)

    def qr(a, b, c, d):
        x[b] ^= _rotl((x[a] + x[d]) & M32, 7)
        x[c] ^= _rotl((x[b] + x[a]) & M32, 9)
        x[d] ^= _rotl((x[c] + x[b]) & M32, 13)
        x[a] ^= _rotl((x[d] + x[c]) & M32, 18)

    for _ in range(rounds // 2):
        qr(0, 4, 8, 12); qr(5, 9, 13, 1); qr(10, 14, 2, 6); qr(15, 3, 7, 11)
        qr(0, 1, 2, 3); qr(5, 6, 7, 4); qr(10, 11, 8, 9); qr(15, 12, 13, 14)
    return x


def _salsa_state(key, n0, n1, c0, c1):
    c = _consts(len(key))
    k = _keywords(key)
    return [c[0], k[0], k[1], k[2], k[3], c[1], n0, n1, c0, c1, c[2], k[4], k[5], k[6], k[7], c[3]]


def salsa_block(key, nonce8, counter, rounds):
    n0, n1 = struct.unpack("<2I", nonce8)
    st = _salsa_state(key, n0, n1, counter & M32, (counter >> 32) & M32)
    x = _salsa_rounds(st, rounds)
    return struct.pack("<16I", *[(a + b) & M32 for a, b in zip(x, st)])


def hsalsa(key, nonce16, rounds):
    n = struct.unpack("<4I", nonce16)
    st = _salsa_state(key, n[0], n[1], n[2], n[3])
    x = _salsa_rounds(st, rounds)
    return struct.pack("<8I", x[0], x[5], x[10], x[15], x[6], x[7], x[8], x[9])


class Stream:
    """position-indexed keystream of one (variant, rounds, key, nonce)"""

    def __init__(self, variant, rounds, key, nonce):
        self.variant = variant
        self.rounds = rounds
        self.cache = {}
        if variant == "chacha":
            assert len(nonce) == 12
            self.key = key
            self.n = struct.unpack("<3I", nonce)
            self.ctr_bits = 32
        elif variant == "chachao":
            assert len(nonce) == 8
            self.key = key
            self.n = struct.unpack("<2I", nonce)
            self.ctr_bits = 64
        elif variant == "xchacha":
            assert len(nonce) == 24 and len(key) == 32
            self.key = hchacha(key, nonce[:16], rounds)
            self.n = struct.unpack("<2I", nonce[16:24])
            self.ctr_bits = 32
        elif variant == "salsa":
            assert len(nonce) == 8
            self.key = key
            self.nonce8 = nonce
            self.ctr_bits = 64
        elif variant == "xsalsa":
            assert len(nonce) == 24 and len(key) == 32
            self.key = hsalsa(key, nonce[:16], rounds)
            self.nonce8 = nonce[16:24]
            self.ctr_bits = 64
        else:
            raise ValueError(variant)

    def block(self, ctr):
        ctr &= (1 << self.ctr_bits) - 1
        b = self.cache.get(ctr)
        if b is not None:
            return b
        v = self.variant
        if v == "chacha":
            b = chacha_block_words(self.key, (ctr,) + self.n, self.rounds)
        elif v == "chachao":
            b = chacha_block_words(self.key, (ctr & M32, ctr >> 32) + self.n, self.rounds)
        elif v == "xchacha":
            b = chacha_block_words(self.key, (ctr, 0) + self.n, self.rounds)
        else:
            b = salsa_block(self.key, self.nonce8, ctr, self.rounds)
        if len(self.cache) > 4096:
            self.cache.clear()
        self.cache[ctr] = b
        return b

    def keystream(self, block, offset, n):
        """n keystream bytes starting at byte `offset` of block `block` (counter arithmetic modulo its width)"""
        out = bytearray()
        while n > 0:
            b = self.block(block)
            take = min(64 - offset, n)
            out += b[offset:offset + take]
            n -= take
            offset += take
            if offset == 64:
                offset = 0
                block = (block + 1) & ((1 << self.ctr_bits) - 1)
        return bytes(out)


def xor(a, b):
    return bytes(x ^ y for x, y in zip(a, b))
