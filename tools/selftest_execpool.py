#!/usr/bin/env python3
"""Machinery self-test: a process death or a hang in the middle of a large batch is attributed to exactly the program that causes it
(and every other program still gets its ordinary answer)."""
import os
import sys
import time

sys.path.insert(0, os.path.dirname(os.path.dirname(os.path.abspath(__file__))))
os.environ.setdefault("VERIF_HANG_S", "3")
from mc import builds, execpool          # noqa: E402

ok, log = builds.build("rel")
assert ok, log[-2000:]
ex = execpool.Executor("rel")
progs = ["hash sha256 p:5:0:%d" % i for i in range(3000)]
ref = ex.run_many(progs)
for kind, label in (("selftest_abort", "CRASH"), ("selftest_hang", "HANG")):
    for pos in (0, 1500, 2999):
        p2 = list(progs)
        p2[pos] = "hash sha256 p:5:0:1;%s" % kind
        t = time.time()
        got = ex.run_many(p2)
        assert got[pos] == [label], (kind, pos, got[pos])
        assert all(got[i] == ref[i] for i in range(3000) if i != pos), (kind, pos)
        print("%s at %d of 3000 attributed correctly (%.1fs)" % (label, pos, time.time() - t))
# a death that depends on what the same process ran before (not reproducible on the program alone) is attributed to the program, with
# the sequence that reproduces it
p2 = list(progs)
p2[2000] = "selftest_abort_after 1200"
t = time.time()
got = ex.run_many(p2)
assert got[2000] == ["CRASH"], got[2000]
assert all(got[i] == ref[i] for i in range(3000) if i != 2000)
seq = execpool.SEQ_CRASH.get(p2[2000])
assert seq and seq[-1] == p2[2000] and len(seq) >= 1201, (seq and len(seq))
print("history-dependent death at 2000 of 3000 attributed correctly, sequence of %d programs (%.1fs)" % (len(seq), time.time() - t))
# a wrong answer that depends on what the same process ran before is confirmed by replaying the history, and recorded with it
from mc import core          # noqa: E402
ex.close()
execpool.close_all()
ck = core.Checker("SELFTEST", "rel")
cases = [(["hash sha256 p:5:0:%d" % i], [ref[i][0]], None) for i in range(1500)] + [(["selftest_wrong_after 1200"], ["-"], None)]
ck.run(cases)
assert ck.stats.violation_count == 1 and ck.stats.violations[0].get("sequence"), ck.stats.violations
assert ck.stats.violations[0]["sequence"][-1] == "selftest_wrong_after 1200"
print("history-dependent wrong answer confirmed with a sequence of %d programs" % len(ck.stats.violations[0]["sequence"]))
execpool.close_all()
ex = execpool.Executor("rel")
# slow programs are not mistaken for hangs
got = ex.run_many(["selftest_sleep 1500"] * 3 + ["hash sha256 p:5:0:3"])
assert got[:3] == [["-"]] * 3 and got[3] == ref[3], got
ex.close()
print("execpool selftest ok")
