#!/usr/bin/env python3
"""Development triage of stored seeded changes, several at a time, WITHOUT touching /repo:

  tools/par_eval.py [--slots N] [--base K] [--tier quick] [--checks own|all|C01,C02] [--only r3] [--names a,b,c|/abs/path.diff] [--record]

Each slot owns a private git worktree of /repo (under /tmp/pe/repo_<i>) and a private copy of /verif (under /tmp/pe/verif_<i>,
without build output) whose executor path-dependency points at that worktree. For each seed the patch is applied to the slot's
worktree, the checks run from the slot's /verif copy, and the patch is undone. The authoritative record for a seed (what DESIGN.md
reports) is still made with tools/eval_seed.py / tools/run_seed.py, which apply the patch to /repo itself; this tool only tells
quickly which seeds the current machinery catches."""
import json
import os
import shutil
import subprocess
import sys
import threading
import time
import queue

VERIF = os.path.dirname(os.path.dirname(os.path.abspath(__file__)))
ROOT = "/tmp/pe"


def sh(cmd, cwd=None, timeout=7200, env=None):
    e = dict(os.environ)
    e["CARGO_NET_OFFLINE"] = "true"
    if env:
        e.update(env)
    p = subprocess.run(cmd, shell=True, cwd=cwd, env=e, stdout=subprocess.PIPE, stderr=subprocess.STDOUT, text=True, timeout=timeout)
    return p.returncode, p.stdout


def setup_slot(i):
    repo = "%s/repo_%d" % (ROOT, i)
    ver = "%s/verif_%d" % (ROOT, i)
    os.makedirs(ROOT, exist_ok=True)
    if not os.path.isdir(repo):
        rc, o = sh("git -C /repo worktree add --detach %s HEAD" % repo)
        assert rc == 0, o
    else:
        sh("git checkout -- . && git checkout --detach $(git -C /repo rev-parse HEAD)", cwd=repo)
    os.makedirs(ver, exist_ok=True)
    rc, o = sh("rsync -a --delete --exclude target --exclude .git --exclude seeded --exclude evidence --exclude replays --exclude __pycache__ %s/ %s/" % (VERIF, ver))
    assert rc == 0, o
    os.makedirs(ver + "/evidence", exist_ok=True)
    os.makedirs(ver + "/replays", exist_ok=True)
    for f in ("executor/Cargo.toml",):
        p = os.path.join(ver, f)
        s = open(p).read().replace('path = "/repo"', 'path = "%s"' % repo)
        open(p, "w").write(s)
    return repo, ver


def worker(i, q, results, tier, checks_mode, record):
    repo, ver = setup_slot(i)
    while True:
        try:
            name = q.get_nowait()
        except queue.Empty:
            return
        if name.startswith("/"):
            d = None
            meta = {"property": (checks_mode.split(",")[0] if checks_mode not in ("own", "all") else "C01")}
            patch = name
        else:
            d = os.path.join(VERIF, "seeded", name)
            meta = json.load(open(os.path.join(d, "meta.json")))
            patch = os.path.join(d, "patch.diff")
        if checks_mode == "own":
            checks = [meta["property"]]
        elif checks_mode == "all":
            checks = ["C%02d" % k for k in range(1, 21) if k != 19]
        else:
            checks = checks_mode.split(",")
        sh("git checkout -- .", cwd=repo)
        rc, o = sh("git apply %s" % patch, cwd=repo)
        if rc != 0:
            results.append((name, "-", "APPLY-FAILED", 0, ""))
            continue
        try:
            for c in checks:
                t0 = time.time()
                # first without the extra builds (one executor build instead of up to seven); the full check only if that finds nothing
                rc, o = sh("./check %s --tier %s" % (c, tier), cwd=ver, env={"VERIF_JOBS": os.environ.get("PE_JOBS", "6"), "VERIF_NO_EXTRA_BUILDS": "1"})
                if rc == 0:
                    rc, o = sh("./check %s --tier %s" % (c, tier), cwd=ver, env={"VERIF_JOBS": os.environ.get("PE_JOBS", "6")})
                viol = [l for l in o.splitlines() if l.startswith("VIOLATION")]
                first = ""
                b = ""
                if viol and "replay=" in viol[0]:
                    try:
                        v = json.load(open(viol[0].split("replay=")[1]))
                        first = " ; ".join(v.get("program") or [])[:160]
                        b = v.get("build")
                    except Exception:
                        pass
                verdict = "DETECTED" if rc == 1 else "missed" if rc == 0 else "MACHINERY"
                results.append((name, c, verdict, round(time.time() - t0, 1), "%s %s" % (b, first)))
                print("%-10s %s %-9s %6.1fs %s %s" % (name, c, verdict, time.time() - t0, b, first), flush=True)
                if rc not in (0, 1):
                    print(o[-1200:], flush=True)
                if record:
                    meta.setdefault("triage", []).append({"check": c, "tier": tier, "exit": rc, "wall_s": round(time.time() - t0, 1), "first": first, "build": b,
                                                          "note": "private worktree (tools/par_eval.py)"})
        finally:
            sh("git checkout -- .", cwd=repo)
        if record and d:
            json.dump(meta, open(os.path.join(d, "meta.json"), "w"), indent=1)


def main():
    args = sys.argv[1:]
    if "--help" in args or "-h" in args:
        print(__doc__)
        return
    slots = int(args[args.index("--slots") + 1]) if "--slots" in args else 4
    tier = args[args.index("--tier") + 1] if "--tier" in args else "quick"
    checks_mode = args[args.index("--checks") + 1] if "--checks" in args else "own"
    only = args[args.index("--only") + 1] if "--only" in args else ""
    record = "--record" in args
    base = int(args[args.index("--base") + 1]) if "--base" in args else 0
    if "--names" in args:
        names = args[args.index("--names") + 1].split(",")
    else:
        names = sorted(n for n in os.listdir(os.path.join(VERIF, "seeded")) if only in n)
        names = [n for n in names if json.load(open(os.path.join(VERIF, "seeded", n, "meta.json"))).get("confirmed")]
    q = queue.Queue()
    for n in names:
        q.put(n)
    results = []
    ths = [threading.Thread(target=worker, args=(base + i, q, results, tier, checks_mode, record)) for i in range(min(slots, len(names)))]
    for t in ths:
        t.start()
    for t in ths:
        t.join()
    print("---- summary")
    by = {}
    for name, c, verdict, w, first in sorted(results):
        by.setdefault(name, []).append("%s:%s" % (c, verdict))
    for n in sorted(by):
        print(n, " ".join(by[n]))
    if "--cleanup" in args:
        for i in range(base, base + slots):
            sh("git -C /repo worktree remove --force %s/repo_%d" % (ROOT, i))
        shutil.rmtree(ROOT, ignore_errors=True)


main()
