#!/usr/bin/env python3
"""Regenerates MANIFEST.json from the table below (keeps it valid by construction)."""
import json
import os
import subprocess

VERIF = os.path.dirname(os.path.dirname(os.path.abspath(__file__)))

# pid -> (technique, level text, level note, design section)
CHECKS = {}


def claim(pid, technique, text, note, ref):
    CHECKS[pid] = (technique, text, note, ref)


exec(open(os.path.join(VERIF, "tools", "claims.py")).read())

ALL = ["C%02d" % i for i in range(1, 21)]


def hook_commits():
    try:
        out = subprocess.run(["git", "-C", "/repo", "log", "--format=%H %s"], capture_output=True, text=True).stdout
        return [l.split()[0] for l in out.splitlines() if "verif hooks" in l]
    except Exception:
        return []


def main():
    checks = []
    for pid in ALL:
        if pid not in CHECKS:
            continue
        tech, text, note, ref = CHECKS[pid]
        checks.append({
            "property_id": pid,
            "quick_cmd": "./check %s --tier quick" % pid,
            "thorough_cmd": "./check %s --tier thorough" % pid,
            "evidence_file": "/verif/evidence/%s.json" % pid,
            "replay_cmd_template": "./check replay {path}",
            "engine": "mc-explorer",
            "level_claimed": {"category": "model_checking", "text": text, "design_ref": ref},
            "level_note": note,
            "technique": tech,
        })
    na = [{"property_id": pid, "reason": NOT_APPLICABLE.get(pid, "check not built yet in this round; no claim is made")}
          for pid in ALL if pid not in CHECKS]
    man = {
        "version": 1,
        "setup_cmd": "./setup.sh",
        "hooks": {
            "guard": "cryptoxide_verif",
            "enable": "RUSTFLAGS=\"--cfg cryptoxide_verif\" (set by mc/builds.py for every hooks-on executor configuration)",
            "baseline_off_cmd": "cd /repo && cargo test --workspace --no-fail-fast --offline",
            "source_commits": hook_commits(),
            "add_only": True,
        },
        "engines": [
            {"name": "mc-explorer", "path": "/verif/mc", "serves_properties": sorted(CHECKS),
             "kind_free_text": "explicit-state bounded-exhaustive explorer (python) whose every transition executes the real "
                               "cryptoxide code through /verif/executor (cx-exec), checked against independent reference models in /verif/models"},
        ],
        "checks": checks,
        "not_applicable": na,
        "notes": NOTES,
    }
    with open(os.path.join(VERIF, "MANIFEST.json"), "w") as f:
        json.dump(man, f, indent=1)
    print("MANIFEST.json: %d checks, %d not claimed" % (len(checks), len(na)))


main()
