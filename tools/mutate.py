#!/usr/bin/env python3
"""Mechanical mutation sweep (development aid, not a check): single-token mutants of the crate that still compile and still pass the
repository's own tests are run against the quick tier of the properties anchored in the mutated file; survivors show where the
machinery is blind (or where the mutant is equivalent).

  tools/mutate.py [--slots N] [--base K] [--budget-min M] [--files re] [--limit N] [--out file]

Works like tools/par_eval.py: every slot owns a private worktree of /repo and a private copy of /verif; /repo itself is never touched.
Results are appended to the --out file (default /verif/mutation/results.jsonl), one JSON object per mutant:
  {"file","line","op","before","after","status": "nocompile"|"killed_by_tests"|"detected"|"SURVIVED", "by": <check>, "checks": [...]}"""
import hashlib
import json
import os
import queue
import re
import subprocess
import sys
import threading
import time

VERIF = os.path.dirname(os.path.dirname(os.path.abspath(__file__)))
ROOT = "/tmp/pe"

SKIP_FILES = ("aarch64.rs", "testrng.rs", "tests.rs", "simd.rs")

# (name, regex, replacement) applied to the first match on a line
OPS = [
    ("le->lt", r" <= ", " < "), ("lt->le", r" < ", " <= "), ("ge->gt", r" >= ", " > "), ("gt->ge", r" > ", " >= "),
    ("eq->ne", r" == ", " != "), ("ne->eq", r" != ", " == "),
    ("add->sub", r" \+ ", " - "), ("sub->add", r" - ", " + "), ("mul->add", r" \* ", " + "),
    ("and->or", r" & ", " | "), ("or->and", r" \| ", " & "), ("xor->or", r" \^ ", " | "),
    ("shl->shr", r" << ", " >> "), ("shr->shl", r" >> ", " << "),
    ("addeq->subeq", r" \+= ", " -= "), ("subeq->addeq", r" -= ", " += "), ("oreq->andeq", r" \|= ", " &= "), ("xoreq->oreq", r" \^= ", " |= "),
    ("andeq->oreq", r" &= ", " |= "),
    ("land->lor", r" && ", " || "), ("lor->land", r" \|\| ", " && "),
    ("wadd->wsub", r"wrapping_add", "wrapping_sub"), ("wsub->wadd", r"wrapping_sub", "wrapping_add"),
    ("rotl->rotr", r"rotate_left", "rotate_right"), ("rotr->rotl", r"rotate_right", "rotate_left"),
    ("checked->wrapping", r"checked_add\(([^)]*)\)\.expect\([^)]*\)", r"wrapping_add(\1)"),
    ("not-removed", r"if !", "if "), ("true->false", r"\btrue\b", "false"), ("false->true", r"\bfalse\b", "true"),
    ("min->max", r"\bmin\(", "max("),
]


def sh(cmd, cwd=None, timeout=3600, env=None):
    e = dict(os.environ)
    e["CARGO_NET_OFFLINE"] = "true"
    e.pop("RUSTFLAGS", None)
    if env:
        e.update(env)
    try:
        p = subprocess.run(cmd, shell=True, cwd=cwd, env=e, stdout=subprocess.PIPE, stderr=subprocess.STDOUT, text=True, timeout=timeout)
        return p.returncode, p.stdout
    except subprocess.TimeoutExpired:
        return 124, "TIMEOUT"


def file_props():
    m = {}
    for l in open(os.path.join(VERIF, "properties.jsonl")):
        d = json.loads(l)
        for f in d["anchors"]["files"]:
            m.setdefault(f, []).append(d["id"])
    return m


def candidates(files_re):
    fp = file_props()
    out = []
    for root, _, files in os.walk("/repo/src"):
        for fn in files:
            if not fn.endswith(".rs") or fn in SKIP_FILES:
                continue
            path = os.path.join(root, fn)
            rel = os.path.relpath(path, "/repo")
            if files_re and not re.search(files_re, rel):
                continue
            props = [p for p in fp.get(rel, [])]
            if not props:
                continue
            lines = open(path).read().split("\n")
            in_test = False
            table = "precomp" in rel
            for i, line in enumerate(lines):
                st = line.strip()
                if st.startswith("#[cfg(test)]") or st.startswith('#[cfg(all(test') or "feature = \"with-bench\"" in st:
                    in_test = True          # test / bench modules sit at the end of the files of this crate
                if in_test or st.startswith("//") or st.startswith("#[") or not st:
                    continue
                if "cryptoxide_verif" in line:
                    continue
                code = line.split("//")[0]
                for name, rx, rep in OPS:
                    if table:
                        break
                    if re.search(rx, code):
                        new = re.sub(rx, rep, code, count=1) + line[len(code):]
                        if new != line:
                            out.append((rel, i, name, line, new))
                # integer literals: +1 (first literal on the line that is not part of an identifier or a type suffix)
                m = re.search(r"(?<![\w.])(0x[0-9a-fA-F_]+|\d[\d_]*)(?![\w.])", code)
                if m and not st.startswith(("use ", "pub use", "mod ", "pub mod")):
                    tok = m.group(1)
                    try:
                        v = int(tok.replace("_", ""), 0)
                        for d, nm in ((1, "lit+1"), (-1, "lit-1")):
                            if v + d < 0:
                                continue
                            nt = hex(v + d) if tok.startswith("0x") else str(v + d)
                            new = code[:m.start(1)] + nt + code[m.end(1):] + line[len(code):]
                            if not table or (d == 1 and i % 37 == 0):
                                out.append((rel, i, nm, line, new))
                    except ValueError:
                        pass
                # statement deletion: assignments / compound assignments / bare method calls / asserts (not declarations)
                if re.match(r"^\s*(self\.|\*?[a-z_][\w\[\]\.]*\s*(=|\+=|-=|\^=|\|=|&=|<<=|>>=)\s|[a-z_][\w\.]*\(.*\);\s*$|assert(_eq)?!|debug_assert)", line) and st.endswith(";") \
                        and not st.startswith(("let ", "return", "use ", "pub ", "const ")):
                    out.append((rel, i, "delete-stmt", line, re.match(r"^\s*", line).group(0) + "// " + st))
    return out


def setup_slot(i):
    repo = "%s/repo_%d" % (ROOT, i)
    ver = "%s/verif_%d" % (ROOT, i)
    os.makedirs(ROOT, exist_ok=True)
    if not os.path.isdir(repo):
        rc, o = sh("git -C /repo worktree add --detach %s HEAD" % repo)
        assert rc == 0, o
    else:
        sh("git checkout -- . && git checkout --detach $(git -C /repo rev-parse HEAD)", cwd=repo)
    os.makedirs(ver, exist_ok=True)
    rc, o = sh("rsync -a --delete --exclude target --exclude .git --exclude seeded --exclude evidence --exclude replays --exclude mutation --exclude __pycache__ %s/ %s/" % (VERIF, ver))
    assert rc == 0, o
    os.makedirs(ver + "/evidence", exist_ok=True)
    os.makedirs(ver + "/replays", exist_ok=True)
    p = os.path.join(ver, "executor/Cargo.toml")
    txt = open(p).read().replace('path = "/repo"', 'path = "%s"' % repo)
    open(p, "w").write(txt)
    return repo, ver


ORDER = ["C18", "C03", "C05", "C10", "C08", "C01", "C07", "C13", "C14", "C04", "C11", "C06", "C12", "C15", "C16", "C17", "C09", "C02", "C20", "C19"]


def worker(i, q, outpath, lock, deadline, fp, with_c19):
    repo, ver = setup_slot(i)
    tdir = "%s/mt_target_%d" % (ROOT, i)
    while time.time() < deadline:
        try:
            rel, ln, name, old, new = q.get_nowait()
        except queue.Empty:
            return
        path = os.path.join(repo, rel)
        sh("git checkout -- .", cwd=repo)
        lines = open(path).read().split("\n")
        if lines[ln] != old:
            continue
        lines[ln] = new
        open(path, "w").write("\n".join(lines))
        rec = {"file": rel, "line": ln + 1, "op": name, "before": old.strip(), "after": new.strip(), "checks": []}
        t0 = time.time()
        vector_only = any(x in rel for x in ("sse41.rs", "avx.rs", "avx2.rs", "fe32/", "scalar32.rs"))
        rc, o = sh("cargo test --offline 2>&1 | tail -15", cwd=repo, env={"CARGO_TARGET_DIR": tdir}, timeout=900)
        if "test result: ok" not in o:
            rec["status"] = "nocompile" if ("error[" in o or "error:" in o) and "test result" not in o else "killed_by_tests"
        else:
            props = sorted([p for p in fp.get(rel, [])], key=ORDER.index)
            if not with_c19:
                props = [p for p in props if p != "C19"] or props
            rec["status"] = "SURVIVED"
            # first pass: default build only (one executor build per check); second pass: with the extra builds
            passes = [{"VERIF_NO_EXTRA_BUILDS": "1"}, {}] if not vector_only else [{}]
            for pi, extra_env in enumerate(passes):
                for c in props:
                    if pi == 1 and c in ("C16", "C17", "C19", "C20"):
                        continue        # these have no extra builds: already run in the first pass
                    t1 = time.time()
                    env = {"VERIF_JOBS": os.environ.get("PE_JOBS", "6")}
                    env.update(extra_env)
                    rc, o = sh("./check %s --tier quick" % c, cwd=ver, env=env, timeout=1800)
                    rec["checks"].append({"check": c, "exit": rc, "wall_s": round(time.time() - t1, 1), "extra_builds": not extra_env})
                    if rc == 1:
                        rec["status"] = "detected"
                        rec["by"] = c
                        break
                    if rc != 0:
                        rec["status"] = "MACHINERY"
                        rec["by"] = c
                        rec["log"] = o[-600:]
                        break
                if rec["status"] != "SURVIVED":
                    break
        rec["wall_s"] = round(time.time() - t0, 1)
        sh("git checkout -- .", cwd=repo)
        with lock:
            with open(outpath, "a") as f:
                f.write(json.dumps(rec) + "\n")
        print("%-9s %-16s %s:%d %s  [%s]" % (rec["status"], name, rel, ln + 1, rec.get("by", ""), new.strip()[:70]), flush=True)


def main():
    args = sys.argv[1:]
    slots = int(args[args.index("--slots") + 1]) if "--slots" in args else 4
    base = int(args[args.index("--base") + 1]) if "--base" in args else 10
    budget = float(args[args.index("--budget-min") + 1]) if "--budget-min" in args else 60
    files_re = args[args.index("--files") + 1] if "--files" in args else ""
    limit = int(args[args.index("--limit") + 1]) if "--limit" in args else 0
    outpath = args[args.index("--out") + 1] if "--out" in args else os.path.join(VERIF, "mutation", "results.jsonl")
    os.makedirs(os.path.dirname(outpath), exist_ok=True)
    done = set()
    if os.path.exists(outpath):
        for l in open(outpath):
            try:
                d = json.loads(l)
                done.add((d["file"], d["line"], d["op"]))
            except Exception:
                pass
    cands = [c for c in candidates(files_re) if (c[0], c[1] + 1, c[2]) not in done]
    # deterministic pseudo-random order so that a partial sweep is spread over all files
    cands.sort(key=lambda c: hashlib.blake2b(("%s:%d:%s" % (c[0], c[1], c[2])).encode(), digest_size=8).digest())
    if limit:
        cands = cands[:limit]
    print("%d candidates (%d already done)" % (len(cands), len(done)), flush=True)
    if "--count" in args:
        return
    q = queue.Queue()
    for c in cands:
        q.put(c)
    lock = threading.Lock()
    deadline = time.time() + budget * 60
    fp = file_props()
    ths = [threading.Thread(target=worker, args=(base + i, q, outpath, lock, deadline, fp, "--with-c19" in args)) for i in range(slots)]
    for t in ths:
        t.start()
    for t in ths:
        t.join()


if __name__ == "__main__":
    main()
