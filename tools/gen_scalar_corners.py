#!/usr/bin/env python3
"""One-off generator of crafted inputs for the 21-bit-limb wide reduction and a*b+c (the ref10 code of the 32-bit backend): inputs for
which a carry or borrow of the *final* (floor) carry chains is non-zero in a high limb - events with probability about 2^-21 per limb
for random inputs, reached here by construction (remainders whose limbs 5.. are 0 / saturated / next to the fold constants, plus
quotients of every size) and confirmed with a transliteration of the routine that is built from the crate's own source text at
generation time. Expected outputs are NOT taken from the transliteration: the checks recompute x mod L and (a*b+c) mod L with python
integers. Output: models/kats/scalar_corners.json (committed). Deterministic."""
import itertools
import json
import os
import re
import sys

L = (1 << 252) + 27742317777372353535851937790883648493
SRC = "/repo/src/curve25519/scalar/scalar32.rs"
M21 = (1 << 21) - 1


def body(fn_name, first_stmt, end_marker):
    src = open(SRC).read()
    i = src.index("fn " + fn_name)
    j = src.index(first_stmt, i)
    k = src.index(end_marker, j)
    lines = []
    for ln in src[j:k].split("\n"):
        ln = ln.split("//")[0].strip()
        if ln:
            lines.append(ln)
    return lines


def compile_sim(lines):
    out = []
    chain = 0
    prev_floor = False
    for n, ln in enumerate(lines):
        floor = bool(re.match(r"carry\d+ = s\d+ >> 21;", ln))
        if floor and not prev_floor:
            chain += 1
        prev_floor = floor
        if floor:
            m = re.match(r"carry(\d+) = ", ln)
            ln = ln + " T.append((%d, %s, carry%s));" % (chain, m.group(1), m.group(1))
        if re.match(r"s0 \+= s12 \* 666643;", ln):
            ln = "T.append((100 + len([t for t in T if t[0] >= 100]), 12, s12)); " + ln
        out.append(ln)
    return compile("\n".join(out), "<sim>", "exec")


RED = compile_sim(body("reduce_from_wide_bytes", "s11 += s23 * 666643;", "let mut out = [0u8; 32];"))


def sim_reduce(x):
    env = {"T": []}
    for i in range(23):
        env["s%d" % i] = (x >> (21 * i)) & M21
    env["s23"] = x >> 483
    exec(RED, env)
    return env["T"]


def events(trace):
    ev = set()
    for (chain, n, c) in trace:
        if chain >= 100:
            if c != 0:
                ev.add(("fold%d" % (chain - 100), "+" if c > 0 else "-"))
        elif c != 0 and n >= 5:
            ev.add(("chain%d" % chain, n, "+" if c > 0 else "-"))
    return ev


def main():
    found = {}
    per_event = 40
    delta = L - (1 << 252)
    kmax = ((1 << 512) - 1) // L
    ks = [0, 1, 2, 3, 4, 7, 8, 1 << 20, (1 << 128) + 1, (1 << 252) - 1, 1 << 252, kmax // 2, kmax - 1, kmax]
    lim5 = [0, 1, 683900, 683901, 683902, (1 << 21) - 683902, (1 << 21) - 683901, (1 << 21) - 683900, M21 - 1, M21, 1 << 20, (1 << 20) - 1]
    edge = [0, 1, (1 << 20) - 1, 1 << 20, M21 - 1, M21]
    n = 0
    for l5 in lim5:
        for l6, l7, l8 in itertools.product(edge, edge, (0, M21)):
            for rest in (0, M21):
                for l11 in (0, 1, (1 << 20) - 1, 1 << 20, (1 << 21) - 2):
                    r = 0
                    for i in range(12):
                        v = {5: l5, 6: l6, 7: l7, 8: l8, 11: l11}.get(i, rest)
                        r |= v << (21 * i)
                    r %= L
                    for k in ks:
                        x = r + k * L
                        if x >= (1 << 512):
                            continue
                        n += 1
                        for ev in events(sim_reduce(x)):
                            lst = found.setdefault(ev, [])
                            if len(lst) < per_event and x not in lst:
                                lst.append(x)
    vec = sorted({x for lst in found.values() for x in lst})
    out = {"reduce": [x.to_bytes(64, "little").hex() for x in vec],
           "events": {repr(k): len(v) for k, v in sorted(found.items(), key=repr)}}
    path = os.path.join(os.path.dirname(os.path.dirname(os.path.abspath(__file__))), "models", "kats", "scalar_corners.json")
    json.dump(out, open(path, "w"), indent=0)
    print("candidates", n, "vectors", len(vec))
    for k in sorted(found, key=repr):
        print(" ", k, len(found[k]))


main()
