# Table of claimed checks; exec'd by gen_manifest.py
NOT_APPLICABLE = {}
NOTES = ("All checks are bounded-exhaustive explorations that execute the real library in every transition; "
         "see DESIGN.md for alphabets, bounds, oracles and limits. KNOWN_FINDINGS.txt lists fixed and known defects.")

claim("C01", "bounded-exhaustive enumeration of (variant, length, pattern, outlen, keylen) one-step programs on the real code vs hashlib/Keccak model",
      "Every one-shot digest and new/update/finalize path is executed for every length 0..=4B+1 (quick 0..=2B+1) of every variant, every BLAKE2 outlen x keylen, "
      "and compared with an independent implementation; exhaustive over the stated shape space, content from a fixed pattern alphabet.",
      "Trusts hashlib/OpenSSL, the validated python Keccak, the executor's op interpreter and rustc.", "DESIGN.md section 3 C01")

claim("C02", "explicit-state BFS (tree to depth 3/4, graph until frontier empty) over histories of real hash contexts vs reference digests in every state",
      "Every sequence of update/update_mut/fork/reset/finalize_reset/finalize(/reset_with_key/finalize_reset_with_key) letters up to the depth bound, and every "
      "partition of messages up to 4B+1 bytes into alphabet chunks, is executed on the real contexts of all 36 context types; in every state three probe digests of "
      "clones must equal the model.",
      "Trusts hashlib/validated Keccak; chunk content is a position-determined pattern; graph merging keyed on model state + observed probe digests.", "DESIGN.md section 3 C02")
claim("C03", "bounded-exhaustive product of (variant, rounds, key length, key, nonce, start block incl. counter boundaries via hooks, length) on real contexts and on the portable engine vs python spec models",
      "The full product of the stated alphabets is executed, including 32-bit wrap and 64-bit carry boundaries reached through cfg-guarded counter setters, on the SSE2 "
      "contexts and on the portable engine through the hook wrapper.",
      "Trusts the python ChaCha/Salsa models (validated by RFC/draft/ECRYPT/NaCl vectors) and the hook setters.", "DESIGN.md section 3 C03")
claim("C04", "explicit-state BFS over histories {process, process_mut, seek, clone} of real cipher contexts and {bytes, fill_bytes, fill_slice, u32, u64} of the DRG vs a position-indexed keystream model",
      "Every letter sequence to depth 3/4 with up to two live contexts, every partition of 4 blocks + 1 byte per seek in graph mode, and every DRG request sequence to depth 3 "
      "over prior buffer contents, with the next 65 keystream bytes of a clone checked in every state.",
      "Trusts the keystream models of C03; DRG u32/u64 big-endian convention as documented.", "DESIGN.md section 3 C04")
claim("C05", "bounded-exhaustive enumeration of keys x messages (every length 0..=80, crafted wrap-around blocks) x chunkings (all 2-splits, 3-splits, depth-3 chunk sequences) vs big-integer Poly1305",
      "All listed keys, every message length 0..=80, every cut point, accumulator values p-2..p+4 and the RFC 8439 A.3 inputs are executed on the real MAC.",
      "Trusts python big-integer arithmetic.", "DESIGN.md section 3 C05")
claim("C06", "product enumeration of one-shot AEAD shapes plus explicit-state BFS of the incremental phase machine (graph mode to frontier-empty, fork tree) vs RFC 8439 model",
      "Every (key length, AAD length, plaintext length) shape one-shot, and every partition of AAD (<=33/51 bytes) and data (<=130/195 bytes) across "
      "add_data/encrypt/encrypt_mut/decrypt/decrypt_mut for rounds 8/12/20, with the tag of a finalized clone checked in every state.",
      "Trusts the python AEAD model (RFC 8439 2.8.2 vector) and the ChaCha model.", "DESIGN.md section 3 C06")
claim("C07", "bounded-exhaustive mutation enumeration (every tag/nonce/key bit, boundary bits of CT/AAD, truncation, extension, boundary moves, swaps) through three decrypt interfaces with computed verdicts",
      "For every base shape each mutation is decided by the one-shot and two incremental decryptors; the expected verdict is computed from the model tag of exactly the supplied inputs.",
      "Trusts the python AEAD model; long inputs are bit-flipped only at first/last/16-byte-boundary bytes.", "DESIGN.md section 3 C07")
