# Table of claimed checks; exec'd by gen_manifest.py
NOT_APPLICABLE = {}
NOTES = ("All checks are bounded-exhaustive explorations that execute the real library in every transition; "
         "see DESIGN.md for alphabets, bounds, oracles and limits. KNOWN_FINDINGS.txt lists fixed and known defects.")

claim("C01", "bounded-exhaustive enumeration of (variant, length, pattern, outlen, keylen) one-step programs on the real code vs hashlib/Keccak model",
      "Every one-shot digest and new/update/finalize path is executed for every length 0..=4B+1 (quick 0..=2B+1) of every variant, every BLAKE2 outlen x keylen, "
      "and compared with an independent implementation; exhaustive over the stated shape space, content from a fixed pattern alphabet.",
      "Trusts hashlib/OpenSSL, the validated python Keccak, the executor's op interpreter and rustc.", "DESIGN.md section 3 C01")
