# Table of claimed checks; exec'd by gen_manifest.py
NOT_APPLICABLE = {}
NOTES = ("All checks are bounded-exhaustive explorations that execute the real library in every transition; "
         "see DESIGN.md for alphabets, bounds, oracles and limits. KNOWN_FINDINGS.txt lists fixed and known defects.")

claim("C01", "bounded-exhaustive enumeration of (variant, length, pattern, outlen, keylen) one-step programs on the real code vs hashlib/Keccak model",
      "Every one-shot digest and new/update/finalize path is executed for every length 0..=4B+1 (quick 0..=2B+1) of every variant, every BLAKE2 outlen x keylen, "
      "and compared with an independent implementation; exhaustive over the stated shape space, content from a fixed pattern alphabet.",
      "Trusts hashlib/OpenSSL, the validated python Keccak, the executor's op interpreter and rustc.", "DESIGN.md section 3 C01 and 10.1 (own corpus re-run on the checked-arithmetic build and, where vector code is reached, on the +sse4.1/+avx/+avx2 builds; additional histories and every-length sweeps)")

claim("C02", "explicit-state BFS (tree to depth 3/4, graph until frontier empty) over histories of real hash contexts vs reference digests in every state",
      "Every sequence of update/update_mut/fork/reset/finalize_reset/finalize(/reset_with_key/finalize_reset_with_key) letters up to the depth bound, and every "
      "partition of messages up to 4B+1 bytes into alphabet chunks, is executed on the real contexts of all 36 context types; in every state three probe digests of "
      "clones must equal the model.",
      "Trusts hashlib/validated Keccak; chunk content is a position-determined pattern; graph merging keyed on model state + observed probe digests.", "DESIGN.md section 3 C02 and 10.1 (own corpus re-run on the checked-arithmetic build and, where vector code is reached, on the +sse4.1/+avx/+avx2 builds; additional histories and every-length sweeps)")
claim("C03", "bounded-exhaustive product of (variant, rounds, key length, key, nonce, start block incl. counter boundaries via hooks, length) on real contexts and on the portable engine vs python spec models",
      "The full product of the stated alphabets is executed, including 32-bit wrap and 64-bit carry boundaries reached through cfg-guarded counter setters, on the SSE2 "
      "contexts and on the portable engine through the hook wrapper.",
      "Trusts the python ChaCha/Salsa models (validated by RFC/draft/ECRYPT/NaCl vectors) and the hook setters.", "DESIGN.md section 3 C03 and 10.1 (own corpus re-run on the checked-arithmetic build and, where vector code is reached, on the +sse4.1/+avx/+avx2 builds; additional histories and every-length sweeps)")
claim("C04", "explicit-state BFS over histories {process, process_mut, seek, clone} of real cipher contexts and {bytes, fill_bytes, fill_slice, u32, u64} of the DRG vs a position-indexed keystream model",
      "Every letter sequence to depth 3/4 with up to two live contexts, every partition of 4 blocks + 1 byte per seek in graph mode, and every DRG request sequence to depth 3 "
      "over prior buffer contents, with the next 65 keystream bytes of a clone checked in every state.",
      "Trusts the keystream models of C03; DRG u32/u64 big-endian convention as documented.", "DESIGN.md section 3 C04 and 10.1 (own corpus re-run on the checked-arithmetic build and, where vector code is reached, on the +sse4.1/+avx/+avx2 builds; additional histories and every-length sweeps)")
claim("C05", "bounded-exhaustive enumeration of keys x messages (every length 0..=80, crafted wrap-around blocks) x chunkings (all 2-splits, 3-splits, depth-3 chunk sequences) vs big-integer Poly1305",
      "All listed keys, every message length 0..=80, every cut point, accumulator values p-2..p+4 and the RFC 8439 A.3 inputs are executed on the real MAC.",
      "Trusts python big-integer arithmetic. Also: accumulator steering (blocks assembled from 26-bit limb fields in every combination, sum passing 2^130, saturated keys x all sequences of <= 3 saturated blocks, runs of 4096 saturated blocks); own corpus re-run on the checked-arithmetic and +avx2 builds (DESIGN 10.1).", "DESIGN.md section 3 C05 and 10.1")
claim("C06", "product enumeration of one-shot AEAD shapes plus explicit-state BFS of the incremental phase machine (graph mode to frontier-empty, fork tree) vs RFC 8439 model",
      "Every (key length, AAD length, plaintext length) shape one-shot, and every partition of AAD (<=33/67 bytes) and data (<=130/260 bytes) across "
      "add_data/encrypt/encrypt_mut/decrypt/decrypt_mut for rounds 8/12/20, with the tag of a finalized clone checked in every state.",
      "Trusts the python AEAD model (RFC 8439 2.8.2 vector) and the ChaCha model.", "DESIGN.md section 3 C06 and 10.1 (own corpus re-run on the checked-arithmetic build and, where vector code is reached, on the +sse4.1/+avx/+avx2 builds; additional histories and every-length sweeps)")
claim("C07", "bounded-exhaustive mutation enumeration (every tag/nonce/key bit, boundary bits of CT/AAD, truncation, extension, boundary moves, swaps) through three decrypt interfaces with computed verdicts",
      "For every base shape each mutation is decided by the one-shot and two incremental decryptors; the expected verdict is computed from the model tag of exactly the supplied inputs.",
      "Trusts the python AEAD model; long inputs are bit-flipped only at first/last/16-byte-boundary bytes.", "DESIGN.md section 3 C07 and 10.1 (own corpus re-run on the checked-arithmetic build and, where vector code is reached, on the +sse4.1/+avx/+avx2 builds; additional histories and every-length sweeps)")

claim("C08", "bounded-exhaustive enumeration of 23 digest instantiations x key lengths x message lengths x chunkings (2-splits, all depth-3 chunk sequences) on the real Hmac vs RFC 2104 model",
      "The product of boundary key lengths {0,1,B-1,B,B+1,2B+5}, message lengths and chunkings is executed for every legacy digest type incl. BLAKE2 with several output sizes.",
      "Trusts the reference hashes and the RFC 2104 construction (cross-checked with python's hmac for 12 digests).", "DESIGN.md section 3 C08 and 10.1 (own corpus re-run on the checked-arithmetic build and, where vector code is reached, on the +sse4.1/+avx/+avx2 builds; additional histories and every-length sweeps)")
claim("C09", "explicit-state BFS over lifecycle histories {input, result, raw_result, reset, clone, inherent BLAKE2 resets} of real MAC and legacy digest objects vs a lifecycle automaton",
      "Every letter sequence to depth 3/4 with up to two objects, and graph exploration to frontier-empty within 4 blocks and 2 resets, for Hmac over 8/21 digests, Poly1305, "
      "keyed BLAKE2 through Mac and Digest, and all 16 fixed legacy digests; result-of-clone is checked in every state.",
      "A repeated result may repeat or panic; histories end at a panic; reference MAC/hash models as before.", "DESIGN.md section 3 C09 and 10.1 (own corpus re-run on the checked-arithmetic build and, where vector code is reached, on the +sse4.1/+avx/+avx2 builds; additional histories and every-length sweeps)")
claim("C10", "bounded-exhaustive parameter-product enumeration for HKDF / PBKDF2 / scrypt one-step programs vs RFC 5869 model, hashlib.pbkdf2_hmac, hashlib.scrypt; refusal boundaries enumerated",
      "Every listed (digest, salt, IKM, info, L), (PRF, c, dkLen, password, salt) and every scrypt (log2N 1..10, r 1..8, p 1..4, dkLen) tuple is executed; over-limit requests and "
      "RFC 7914 constraint boundaries must panic.",
      "Trusts hashlib (OpenSSL) for PBKDF2/scrypt and the validated HKDF model.", "DESIGN.md section 3 C10 and 10.1 (own corpus re-run on the checked-arithmetic build and, where vector code is reached, on the +sse4.1/+avx/+avx2 builds; additional histories and every-length sweeps)")
claim("C11", "bounded-exhaustive parameter-product enumeration of Argon2 one-step programs vs python RFC 9106 model",
      "type x version x t 1..4 x p 1..5 x memory set (incl. non-multiples of 4p and segment length > 128) x every tag length 4..300 x input-length shapes, both entry points, setter boundaries.",
      "Trusts the python Argon2 model (RFC 9106 vectors + 42 OpenSSL cross vectors incl. v0x10, p=1, segment length 130).", "DESIGN.md section 3 C11 and 10.1 (own corpus re-run on the checked-arithmetic build and, where vector code is reached, on the +sse4.1/+avx/+avx2 builds; additional histories and every-length sweeps)")
claim("C12", "full product enumeration of boundary scalars (every single-bit scalar) x boundary u-coordinates (non-canonical, small-order, top bit) on the real ladder vs RFC 7748 python",
      "All enumerated (scalar, u) pairs through curve25519, x25519::dh, the fixed-base functions, exchange agreement and the RFC 7748 1/1000-iteration vectors.",
      "Trusts the python ladder (RFC + OpenSSL vectors); values outside the enumerated set are not covered. Also: every small u, the C15 limb-field / result-steering field programs incl. the ladder constant multiplication (hook) as a component, own corpus re-run on the checked-arithmetic and force-32bits builds (DESIGN 10.1).", "DESIGN.md section 3 C12 and 10.1")
claim("C13", "bounded-exhaustive enumeration of seeds x message lengths (every length 0..=300) for keypair/sign/sign_extended/extended_to_public/exchange vs RFC 8032 python",
      "Every message length 0..=300 and the block-boundary lengths for all seeds; signatures, key layout, extended-key equivalence and the Ed25519->X25519 exchange are compared byte for byte.",
      "Trusts the python RFC 8032 model (RFC vectors + 15 OpenSSL signatures). Also: C15 scalar components (a*b+c mod L on limb-field scalars via hook, wide reduction on steered remainders, fixed-base multiplication on carry-chain digit strings), own corpus re-run on the checked-arithmetic and force-32bits builds (DESIGN 10.1).", "DESIGN.md section 3 C13 and 10.1")
claim("C14", "bounded-exhaustive mutation and adversarial-input enumeration for ed25519::verify with the verdict computed from the statement in python",
      "All 512 signature bits, 256 key bits, message bits, every S+kL below 2^256, small-order / non-canonical / non-point keys and R, crafted small-order triples satisfying the "
      "cofactorless equation (108 accepting cases in the quick tier).",
      "Permissive point decoding as in ref10; trusts python point arithmetic. Also: C15 scalar / recoding / codec components, own corpus re-run on the checked-arithmetic and force-32bits builds (DESIGN 10.1).", "DESIGN.md section 3 C14 and 10.1")
claim("C15", "grammar-bounded enumeration of field-expression programs (depth 2/3), scalar boundary sets (every 2^i), every single-nibble base-point scalar, all boundary scalar pairs x 14 points for the double-scalar routine, all point pairs for the group law",
      "Programs for field/scalar/group stack machines are enumerated exhaustively within the stated grammar depth and alphabets and executed on the public arithmetic types; "
      "every GE_BASE and BI table entry is reached. Ge::from_bytes returning -P is a recorded known finding.",
      "Trusts python integer arithmetic; operands >= 2^255 not generated. Also: limb-field product alphabets for both backends (all pairs), result steering (every limb-field element as the result of mul / square / square_and_double / small-constant multiplication / wide reduction), a*b+c mod L and digit recodings through hooks, every doubling path incl. P1P1; own corpus re-run on the checked-arithmetic and force-32bits builds (DESIGN 10.1).", "DESIGN.md section 3 C15 and 10.1")

claim("C16", "identical bounded-exhaustive workloads executed by 4 differently compiled executors (baseline/SSE2, +sse4.1, +avx, +avx2) plus the portable ChaCha engine via hook; per-step model comparison and cross-build transcript identity",
      "SHA-224/256 with k = 1..20 blocks per call at byte offsets 0..31 and varying chaining states, BLAKE2b/s keyed/unkeyed with and without the last-block flag, the complete C03 grid, "
      "HMAC/PBKDF2/scrypt/Argon2 spot programs and the C01 shards, on every x86-64 feature set the host has; transcripts must be byte-identical and equal to the model.",
      "Only x86-64 feature sets of the host CPU; aarch64 path not buildable here.", "DESIGN.md section 3 C16")
claim("C17", "the complete C12-C15 case sets executed through the default and the force-32bits executors; per-step model comparison and cross-build transcript identity; build failure is a violation",
      "Every case of C12-C15 (same tier) runs on both limb representations; the ordered transcripts must be identical and equal to the python models.",
      "Feature-forced 32-bit backend on x86-64 only (no real 32-bit target installed).", "DESIGN.md section 3 C17")
claim("C18", "exhaustive tables (all 2^16 byte pairs, all pairs over a 200-value u64 boundary set) and bounded-exhaustive enumeration of array/slice/choice/option/swap/set/MacResult/Tag cases vs python operators",
      "Every helper is evaluated on the complete stated operand sets (arrays 0..40 bytes differing at every single position, every (choice, array pair)).",
      "Trusts python comparison operators; masked swap/set reached through cfg-guarded public wrappers.", "DESIGN.md section 3 C18 and 10.1 (own corpus re-run on the checked-arithmetic build and, where vector code is reached, on the +sse4.1/+avx/+avx2 builds; additional histories and every-length sweeps)")
claim("C19", "2-safety by self-composition over an enumerated secret alphabet: instruction-address traces (valgrind lackey; ptrace single-step cross-check in thorough) of the release victim must be identical for every secret",
      "For each of 12 operations every secret of the alphabet (single-bit values, 00/FF, patterns; every mismatch position for comparisons) is executed under an instruction-level monitor "
      "and the full program-counter sequence between two markers is compared with the baseline's; the monitor is self-tested on a deliberately leaky operation in every run.",
      "Instruction addresses only (data addresses reported as information); this compiler, baseline x86-64 release builds (default and, for the curve operations, force-32bits); wide scalar reduction on chosen remainders around L; not a proof outside the alphabet.", "DESIGN.md section 3 C19 and 10.1")
claim("C20", "the entire quick corpus of C01-C15 re-executed on debug and release+overflow-checks+debug-assertions executors with cross-build transcript identity, counter-crossing programs via hooks, and an enumerated misuse corpus that must be refused on all builds (memcheck in thorough)",
      "About 5.8 million in-domain programs per run on the two checked builds must neither panic nor differ; BLAKE2 and cipher counters are preset next to their word boundaries; "
      "every documented-invalid argument shape per entry point must panic or return an error on all three builds.",
      "Hash length counters (2^61 bytes) not explorable; Argon2 unchecked parameter ranges outside the claim.", "DESIGN.md section 3 C20")
