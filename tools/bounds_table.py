#!/usr/bin/env python3
"""Regenerates section 13 of DESIGN.md (bounds actually implemented, per property and tier) from props/*.bounds() and the last evidence files."""
import importlib
import json
import os
import sys

VERIF = os.path.dirname(os.path.dirname(os.path.abspath(__file__)))
sys.path.insert(0, VERIF)
MARK = "<!-- bounds-table -->"
END = "<!-- /bounds-table -->"


def main():
    out = [MARK, "", "## 13. Bounds as implemented (generated from `props/*.py: bounds()`)", ""]
    for i in range(1, 21):
        pid = "C%02d" % i
        mod = importlib.import_module("props." + pid.lower())
        out.append("### %s" % pid)
        out.append("")
        out.append("*Rule:* " + mod.RULE)
        out.append("")
        for tier in ("quick", "thorough"):
            b = mod.bounds(tier) if hasattr(mod, "bounds") else {}
            out.append("* **%s**: %s" % (tier, json.dumps(b, sort_keys=True)))
        out.append("* **builds**: quick %s" % (mod.builds_needed("quick"),))
        out.append("")
    out.append(END)
    p = os.path.join(VERIF, "DESIGN.md")
    s = open(p).read()
    if MARK in s and END in s:
        s = s[:s.index(MARK)] + "\n".join(out) + s[s.index(END) + len(END):]
    else:
        # insert before the seeded table if present
        m2 = "<!-- seeded-table -->"
        if m2 in s:
            s = s[:s.index(m2)] + "\n".join(out) + "\n\n" + s[s.index(m2):]
        else:
            s = s.rstrip("\n") + "\n\n" + "\n".join(out) + "\n"
    open(p, "w").write(s)
    print("bounds table written")


main()
