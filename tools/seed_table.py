#!/usr/bin/env python3
"""Regenerates the table of seeded changes at the end of DESIGN.md from seeded/*/meta.json."""
import glob
import json
import os

VERIF = os.path.dirname(os.path.dirname(os.path.abspath(__file__)))
MARK = "<!-- seeded-table -->"


def main():
    rows = []
    for m in sorted(glob.glob(os.path.join(VERIF, "seeded", "*", "meta.json"))):
        d = json.load(open(m))
        name = os.path.basename(os.path.dirname(m))
        summ = (d.get("agent_report", {}).get("summary") or d.get("summary") or "").replace("|", "/").replace("\n", " ")
        if len(summ) > 150:
            summ = summ[:147] + "..."
        ran = ", ".join("%s:%s" % (r["check"], "caught" if r["exit"] == 1 else ("missed" if r["exit"] == 0 else "machinery")) for r in d.get("ran", []))
        first = ""
        for r in d.get("ran", []):
            if r.get("first_counterexample"):
                fc = r["first_counterexample"]
                prog = " ; ".join(fc.get("program") or [])
                first = (prog[:110] + "...") if len(prog) > 110 else prog
                break
        rows.append("| %s | %s | %s | %s | %s | `%s` |" % (name, d.get("property"), "yes" if d.get("confirmed") else "no", summ, ran, first.replace("|", "/")))
    table = [MARK, "", "| seeded change | breaks | confirmed (tests pass, demo discriminates) | what it is | checks run -> result | first counterexample reported |",
             "|---|---|---|---|---|---|"] + rows + [""]
    p = os.path.join(VERIF, "DESIGN.md")
    s = open(p).read()
    if MARK in s:
        s = s[:s.index(MARK)]
    s = s.rstrip("\n") + "\n\n" + "\n".join(table)
    open(p, "w").write(s)
    print("%d seeded changes tabulated" % len(rows))


main()
