#!/usr/bin/env python3
"""Regenerates the table of seeded changes at the end of DESIGN.md from seeded/*/meta.json."""
import glob
import json
import os

VERIF = os.path.dirname(os.path.dirname(os.path.abspath(__file__)))
MARK = "<!-- seeded-table -->"


def main():
    rows = []
    for m in sorted(glob.glob(os.path.join(VERIF, "seeded", "*", "meta.json"))):
        d = json.load(open(m))
        name = os.path.basename(os.path.dirname(m))
        summ = (d.get("agent_report", {}).get("summary") or d.get("summary") or "").replace("|", "/").replace("\n", " ")
        if len(summ) > 150:
            summ = summ[:147] + "..."
        ran = ", ".join("%s:%s" % (r["check"], "caught" if r["exit"] == 1 else ("missed" if r["exit"] == 0 else "machinery")) for r in d.get("ran", []))
        first = ""
        for r in d.get("ran", []):
            if r.get("first_counterexample"):
                fc = r["first_counterexample"]
                prog = " ; ".join(fc.get("program") or [])
                first = (prog[:110] + "...") if len(prog) > 110 else prog
                break
        # rounds 3+: first contact and the run with the final machinery (tools/par_eval.py, private worktree)
        fc_ = d.get("first_contact", {}).get("results") or []
        if fc_:
            ran = "first contact " + ", ".join("%s:%s" % (r["check"], {"DETECTED": "caught", "missed": "missed"}.get(r["verdict"], "machinery")) for r in fc_[:1])
        tri = d.get("triage") or []
        if tri:
            last = {}
            for r in tri:
                last[r["check"]] = r
            ran = (ran + "; " if ran else "") + "final " + ", ".join("%s:%s" % (c, "caught" if r["exit"] == 1 else ("missed" if r["exit"] == 0 else "machinery")) for c, r in sorted(last.items()))
            if not first:
                for c, r in sorted(last.items()):
                    if r["exit"] == 1 and r.get("first"):
                        f1 = (r.get("build") or "") + ": " + r["first"]
                        first = (f1[:110] + "...") if len(f1) > 110 else f1
                        break
        rr = d.get("rerun") or []
        if rr:
            last = {}
            for r in rr:
                last[r["check"]] = r
            ran = (ran + "; " if ran else "") + "applied to /repo: " + ", ".join("%s:%s" % (c, "caught" if r["exit"] == 1 else ("missed" if r["exit"] == 0 else "machinery")) for c, r in sorted(last.items()))
        rows.append("| %s | %s | %s | %s | %s | `%s` |" % (name, d.get("property"), "yes" if d.get("confirmed") else "no", summ, ran, first.replace("|", "/")))
    table = [MARK, "", "| seeded change | breaks | confirmed (tests pass, demo discriminates) | what it is | checks run -> result | first counterexample reported |",
             "|---|---|---|---|---|---|"] + rows + [""]
    p = os.path.join(VERIF, "DESIGN.md")
    s = open(p).read()
    if MARK in s:
        s = s[:s.index(MARK)]
    s = s.rstrip("\n") + "\n\n" + "\n".join(table)
    open(p, "w").write(s)
    print("%d seeded changes tabulated" % len(rows))


main()
