#!/usr/bin/env python3
"""Re-run checks against an already stored seeded change (seeded/<name>/patch.diff applied to /repo, undone straight afterwards).

  tools/run_seed.py <name>[,<name>...] [--checks C01,C02] [--tier quick|thorough] [--record]

Default check = the property the change targets. With --record the outcome is appended to the seed's meta.json
("rerun" list) and "detected_by" is updated. Prints one line per (seed, check)."""
import json
import os
import subprocess
import sys
import time

VERIF = os.path.dirname(os.path.dirname(os.path.abspath(__file__)))


def sh(cmd, cwd=None, timeout=7200):
    e = dict(os.environ)
    e["CARGO_NET_OFFLINE"] = "true"
    p = subprocess.run(cmd, shell=True, cwd=cwd, env=e, stdout=subprocess.PIPE, stderr=subprocess.STDOUT, text=True, timeout=timeout)
    return p.returncode, p.stdout


def main():
    names = sys.argv[1].split(",")
    args = sys.argv[2:]
    tier = args[args.index("--tier") + 1] if "--tier" in args else "quick"
    record = "--record" in args
    for name in names:
        d = os.path.join(VERIF, "seeded", name)
        meta = json.load(open(os.path.join(d, "meta.json")))
        checks = args[args.index("--checks") + 1].split(",") if "--checks" in args else [meta["property"]]
        rc, o = sh("git -C /repo status --porcelain")
        assert o.strip() == "", "/repo has local edits: " + o
        rc, o = sh("git -C /repo apply %s" % os.path.join(d, "patch.diff"))
        assert rc == 0, o
        try:
            for c in checks:
                t0 = time.time()
                rc, o = sh("./check %s --tier %s" % (c, tier), cwd=VERIF)
                viol = [l for l in o.splitlines() if l.startswith("VIOLATION")]
                first = None
                if viol and "replay=" in viol[0]:
                    try:
                        v = json.load(open(viol[0].split("replay=")[1]))
                        first = {"build": v.get("build"), "program": v.get("program"), "step": v.get("step"),
                                 "expected": str(v.get("expected"))[:120], "observed": str(v.get("observed"))[:120], "note": (v.get("note") or "")[:200]}
                    except Exception:
                        pass
                res = {"check": c, "tier": tier, "exit": rc, "violations_reported": len(viol), "first_counterexample": first,
                       "wall_s": round(time.time() - t0, 1), "summary": [l for l in o.splitlines() if l.startswith("[C")][-1:]}
                print("%-10s %s %-8s exit=%d %s %5.1fs %s" % (name, c, tier, rc, "DETECTED" if rc == 1 else "missed" if rc == 0 else "MACHINERY",
                                                            time.time() - t0, (first or {}).get("build", "")), flush=True)
                if rc not in (0, 1):
                    print(o[-1500:])
                if record:
                    meta.setdefault("rerun", []).append(res)
                    if rc == 1 and c not in meta.get("detected_by", []):
                        meta.setdefault("detected_by", []).append(c)
        finally:
            sh("git -C /repo checkout -- .")
        if record:
            json.dump(meta, open(os.path.join(d, "meta.json"), "w"), indent=1)


main()
