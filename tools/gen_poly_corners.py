#!/usr/bin/env python3
"""One-off generator of crafted Poly1305 inputs whose *internal* accumulator (five 26-bit limbs, the radix every 32-bit Poly1305
uses, this crate included) enters the final reduction in a corner state:

  pending lazy carry in limb 1 (h1 >= 2^26, even and odd excess), limbs 2..4 saturated or not, limb 0 within 5 of 2^26 or not,
  final value below / at / above 2^130-5, carries of the final h + s addition present or absent in every 32-bit word.

Keys are full-size clamped r (a pending carry larger than 1 needs a large r); the last message block is solved from the target residue
(x = T * r^-1 - 2^128 mod p) and the limb state is confirmed with a limb-exact transcription of the block function. The expected tag
is computed by the big-integer model, never by the transcription. Output: models/kats/poly_corners.json (committed); the checks only
read that file. Deterministic (fixed LCG)."""
import json
import os
import sys

sys.path.insert(0, os.path.dirname(os.path.dirname(os.path.abspath(__file__))))
from models import poly          # noqa: E402

P = (1 << 130) - 5
M = (1 << 26) - 1
CLAMP = 0x0ffffffc0ffffffc0ffffffc0fffffff


class Lcg:
    def __init__(self, s):
        self.s = s

    def next(self, bits):
        out = 0
        for i in range(0, bits, 32):
            self.s = (self.s * 6364136223846793005 + 1442695040888963407) & ((1 << 64) - 1)
            out |= (self.s >> 32) << i
        return out & ((1 << bits) - 1)


def limbs(x):
    return [(x >> (26 * i)) & M for i in range(5)]


def block(h, r, m16, hibit=1 << 24):
    """limb-exact donna-32 block step on accumulator limbs h with clamped r (integers), 16-byte block m16"""
    r0, r1, r2, r3, r4 = limbs(r)
    s1, s2, s3, s4 = r1 * 5, r2 * 5, r3 * 5, r4 * 5
    t = int.from_bytes(m16, "little")
    h0 = h[0] + (t & M)
    h1 = h[1] + ((t >> 26) & M)
    h2 = h[2] + ((t >> 52) & M)
    h3 = h[3] + ((t >> 78) & M)
    h4 = h[4] + ((t >> 104) | hibit)
    d0 = h0 * r0 + h1 * s4 + h2 * s3 + h3 * s2 + h4 * s1
    d1 = h0 * r1 + h1 * r0 + h2 * s4 + h3 * s3 + h4 * s2
    d2 = h0 * r2 + h1 * r1 + h2 * r0 + h3 * s4 + h4 * s3
    d3 = h0 * r3 + h1 * r2 + h2 * r1 + h3 * r0 + h4 * s4
    d4 = h0 * r4 + h1 * r3 + h2 * r2 + h3 * r1 + h4 * r0
    c = d0 >> 26; h0 = d0 & M
    d1 += c; c = d1 >> 26; h1 = d1 & M
    d2 += c; c = d2 >> 26; h2 = d2 & M
    d3 += c; c = d3 >> 26; h3 = d3 & M
    d4 += c; c = d4 >> 26; h4 = d4 & M
    h0 += c * 5; c = h0 >> 26; h0 &= M
    h1 += c
    return [h0, h1, h2, h3, h4]


def state_after(r, msg):
    h = [0] * 5
    for i in range(0, len(msg), 16):
        blk = msg[i:i + 16]
        if len(blk) == 16:
            h = block(h, r, blk)
        else:
            h = block(h, r, blk + b"\x01" + bytes(15 - len(blk)), hibit=0)
    return h


def family(h):
    f = []
    ex = h[1] - (1 << 26)
    f.append("pend" + ("0" if ex < 0 else ("E" if ex % 2 == 0 else "O")))
    f.append("top" + "".join("1" if h[i] == M else "0" for i in (2, 3, 4)))
    f.append("h0hi" if h[0] >= (1 << 26) - 5 else "h0lo")
    return "-".join(f)


def main():
    rng = Lcg(0x5eed)
    found = {}
    want_per_family = 12
    tries = 0
    # the 32 target families: (limb 2, 3, 4 saturated or not) x (limb 0 within 5 of 2^26 or not) x (pending excess even / odd)
    fams = [(a, b, c, hi, odd) for a in (1, 0) for b in (1, 0) for c in (1, 0) for hi in (1, 0) for odd in (1, 0)]
    for (a, b, c, hi, odd) in fams:
        name = "pend%s-top%d%d%d-%s" % ("O" if odd else "E", a, b, c, "h0hi" if hi else "h0lo")
        t0 = 0
        while len(found.get(name, [])) < want_per_family and t0 < 60000:
            t0 += 1
            tries += 1
            # keys: random clamped r with large top limbs, so that the fold-back carry can exceed 1
            r = (rng.next(128) | (0x0ffffffc << 96) | (0x0ffffffc << 64 if t0 % 2 else 0)) & CLAMP
            rinv = pow(r, P - 2, P)
            pre = b"" if t0 % 3 else rng.next(128).to_bytes(16, "little")
            hprev = state_after(r, pre)
            vprev = sum(x << (26 * i) for i, x in enumerate(hprev)) % P
            j = 2 * rng.next(2) + (1 if odd else 0)
            h0 = ((1 << 26) - 5 + rng.next(3) % 5) if hi else rng.next(25)
            V = (1 << 130) + h0 + (j << 26)
            for sat, sh in ((a, 52), (b, 78), (c, 104)):
                if not sat:
                    V -= (1 + rng.next(24)) << sh
            T = V % P
            x = (T * rinv - (1 << 128) - vprev) % P
            if x >= (1 << 128):
                continue
            msg = pre + x.to_bytes(16, "little")
            h = state_after(r, msg)
            if h[1] < (1 << 26) or family(h) != name:
                continue
            s_ = rng.next(128)
            key = r.to_bytes(16, "little") + s_.to_bytes(16, "little")
            found.setdefault(name, []).append({"family": name, "key": key.hex(), "msg": msg.hex(), "tag": poly.poly1305(key, msg).hex(), "limbs": h})
    out = [v for fam in sorted(found) for v in found[fam]]
    # every vector also with the two other pads (carries of the final h + s addition)
    extra = []
    for v in out:
        key = bytes.fromhex(v["key"])
        msg = bytes.fromhex(v["msg"])
        for s in (b"\xff" * 16, bytes(16)):
            k2 = key[:16] + s
            if k2 != key:
                extra.append({"family": v["family"], "key": k2.hex(), "msg": v["msg"], "tag": poly.poly1305(k2, msg).hex(), "limbs": v["limbs"]})
    out += extra
    path = os.path.join(os.path.dirname(os.path.dirname(os.path.abspath(__file__))), "models", "kats", "poly_corners.json")
    json.dump(out, open(path, "w"), indent=0)
    fams = sorted(found)
    print("tries", tries, "vectors", len(out), "families", len(fams))
    for f in fams:
        print(" ", f, len(found[f]))


main()
