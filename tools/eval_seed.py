#!/usr/bin/env python3
"""Confirm and evaluate one seeded change produced by an independent sub-agent.

  tools/eval_seed.py <Cxx> <A|B> [--checks C01,C02] [--tier quick|thorough] [--keep-name NAME]

1. confirm, in a scratch worktree of /repo outside /repo and /verif: the patch applies, the repository's own tests still pass
   with it, the demonstration fails with it and passes without it;
2. apply the patch to /repo, run the named checks (default: the property it targets), undo it straight afterwards;
3. store patch, demonstration and meta.json under /verif/seeded/<name>/ .
"""
import json
import os
import shutil
import subprocess
import sys
import time

VERIF = os.path.dirname(os.path.dirname(os.path.abspath(__file__)))


def sh(cmd, cwd=None, env=None, timeout=3600):
    e = dict(os.environ)
    e["CARGO_NET_OFFLINE"] = "true"
    if env:
        e.update(env)
    p = subprocess.run(cmd, shell=True, cwd=cwd, env=e, stdout=subprocess.PIPE, stderr=subprocess.STDOUT, text=True, timeout=timeout)
    return p.returncode, p.stdout


def main():
    pid, which = sys.argv[1], sys.argv[2]
    args = sys.argv[3:]
    checks = [pid]
    tier = "quick"
    if "--checks" in args:
        checks = args[args.index("--checks") + 1].split(",")
    if "--tier" in args:
        tier = args[args.index("--tier") + 1]
    rnd = ""
    if "--round" in args:
        rnd = args[args.index("--round") + 1]
    seed = "/tmp/seed%s_%s" % (rnd if rnd != "1" else "", pid)
    agent_wt = ("/tmp/w%s_%s" % (rnd, pid)) if rnd not in ("", "1") else ("/tmp/wt_%s" % pid)
    diff = os.path.join(seed, "%s.diff" % which)
    demo = os.path.join(seed, "demo%s" % which)
    rep = {}
    try:
        rep = json.load(open(os.path.join(seed, "report.json"))).get(which, {})
    except Exception:
        pass
    name = "%s-%s%s" % (pid, ("r%s" % rnd) if rnd not in ("", "1") else "", which)
    out = os.path.join(VERIF, "seeded", name)
    meta = {"property": pid, "variant": which, "agent_report": rep, "ran": []}

    phase = "both"
    if "--confirm-only" in args:
        phase = "confirm"
    if "--checks-only" in args:
        phase = "checks"
        meta = json.load(open(os.path.join(out, "meta.json")))
        meta["ran"] = []
        return run_checks(meta, out, diff, demo, checks, tier, name)
    # ---- 1. confirmation in a scratch worktree
    wt = "/tmp/ev_%s_%s%s" % (pid, rnd, which)
    sh("git -C /repo worktree remove --force %s" % wt)
    shutil.rmtree(wt, ignore_errors=True)
    rc, o = sh("git -C /repo worktree add --detach %s HEAD" % wt)
    assert rc == 0, o
    try:
        rc, o = sh("git apply %s" % diff, cwd=wt)
        meta["patch_applies"] = rc == 0
        if rc != 0:
            print("PATCH DOES NOT APPLY", o)
            return finish(meta, out, diff, demo, wt)
        rc, o = sh("cargo test --offline 2>&1 | grep -E 'test result|error' | head -5", cwd=wt, env={"CARGO_TARGET_DIR": wt + "/target"})
        meta["repo_tests_with_patch"] = o.strip()
        meta["repo_tests_pass_with_patch"] = ("test result: ok" in o and "FAILED" not in o)
        # demo with the patch: point its dependency at the scratch worktree
        demo_copy = "/tmp/ev_demo_%s_%s%s" % (pid, rnd, which)
        shutil.rmtree(demo_copy, ignore_errors=True)
        shutil.copytree(demo, demo_copy, ignore=shutil.ignore_patterns("target"))
        for root, _, files in os.walk(demo_copy):
            for f in files:
                if f == "Cargo.toml" or f.endswith(".sh") or f == "config.toml":
                    p = os.path.join(root, f)
                    s = open(p).read().replace(agent_wt, wt)
                    open(p, "w").write(s)
        demo_cmd = rep.get("demo_cmd") or "cargo run --offline --release"
        flags = {}
        # honour special flags named by the agent
        if "force-32bits" in json.dumps(rep):
            meta["note_flags"] = "agent mentions force-32bits"
        env = {"CARGO_TARGET_DIR": demo_copy + "/target"}
        runline = os.environ.get("SEED_DEMO_CMD") or "cargo run --offline -q > .demo_out 2>&1; rc=$?; tail -5 .demo_out; exit $rc"
        rc1, o1 = sh("timeout 900 sh -c '%s'" % runline.replace("'", "'\\''"), cwd=demo_copy, env=env)
        meta["demo_with_patch"] = {"rc": rc1, "tail": o1[-400:]}
        sh("git checkout -- .", cwd=wt)
        rc2, o2 = sh("timeout 900 sh -c '%s'" % runline.replace("'", "'\\''"), cwd=demo_copy, env=env)
        meta["demo_without_patch"] = {"rc": rc2, "tail": o2[-400:]}
        meta["demo_discriminates"] = (("FAIL" in o1 or rc1 != 0) and not ("FAIL" in o2 or rc2 != 0))
        shutil.rmtree(demo_copy, ignore_errors=True)
    finally:
        sh("git -C /repo worktree remove --force %s" % wt)
        shutil.rmtree(wt, ignore_errors=True)

    if phase == "confirm":
        return finish(meta, out, diff, demo, None)
    return run_checks(meta, out, diff, demo, checks, tier, name)


def run_checks(meta, out, diff, demo, checks, tier, name):
    # ---- 2. run the checks against /repo with the patch applied, undo straight afterwards
    rc, o = sh("git -C /repo status --porcelain")
    assert o.strip() == "", "/repo has local edits: " + o
    rc, o = sh("git -C /repo apply %s" % diff)
    assert rc == 0, o
    try:
        for c in checks:
            t0 = time.time()
            rc, o = sh("./check %s --tier %s" % (c, tier), cwd=VERIF, timeout=7200)
            viol = [l for l in o.splitlines() if l.startswith("VIOLATION")]
            first = None
            if viol:
                path = viol[0].split("replay=")[1]
                try:
                    v = json.load(open(path))
                    first = {"build": v.get("build"), "program": v.get("program"), "step": v.get("step"),
                             "expected": str(v.get("expected"))[:120], "observed": str(v.get("observed"))[:120], "note": (v.get("note") or "")[:200]}
                except Exception:
                    pass
            meta["ran"].append({"check": c, "tier": tier, "exit": rc, "violations_reported": len(viol), "first_counterexample": first,
                                "wall_s": round(time.time() - t0, 1), "summary": [l for l in o.splitlines() if l.startswith("[C")][-1:]})
            print("%s %s on %s: exit=%d %s" % (c, tier, name, rc, "DETECTED" if rc == 1 else "missed" if rc == 0 else "MACHINERY"))
    finally:
        sh("git -C /repo checkout -- .")
    return finish(meta, out, diff, demo, None)


def finish(meta, out, diff, demo, wt):
    os.makedirs(out, exist_ok=True)
    shutil.copy(diff, os.path.join(out, "patch.diff"))
    d = os.path.join(out, "demo")
    shutil.rmtree(d, ignore_errors=True)
    if os.path.isdir(demo):
        shutil.copytree(demo, d, ignore=shutil.ignore_patterns("target", "Cargo.lock"))
    meta["breaks"] = meta["property"]
    meta["needs_to_manifest"] = meta.get("agent_report", {}).get("needs_to_manifest")
    meta["confirmed"] = bool(meta.get("patch_applies") and meta.get("repo_tests_pass_with_patch") and meta.get("demo_discriminates"))
    meta["detected_by"] = [r["check"] for r in meta["ran"] if r["exit"] == 1]
    json.dump(meta, open(os.path.join(out, "meta.json"), "w"), indent=1)
    print(json.dumps({k: meta[k] for k in ("confirmed", "detected_by", "patch_applies", "repo_tests_pass_with_patch", "demo_discriminates") if k in meta}))


main()
