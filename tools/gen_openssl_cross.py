#!/usr/bin/env python3
"""One-off generator of models/kats/openssl_cross.json with the OpenSSL 3.5 CLI that happens to be in this image.
The output is committed; nothing at check time depends on the openssl binary."""
import json
import subprocess
import sys
import os

sys.path.insert(0, os.path.dirname(os.path.dirname(os.path.abspath(__file__))))
from mc.patterns import pat

OSSL = "/root/miniconda/bin/openssl"


def run(args, stdin=None):
    p = subprocess.run([OSSL] + args, input=stdin, capture_output=True)
    if p.returncode != 0:
        raise RuntimeError(p.stderr.decode())
    return p.stdout


def kdf_hex(args):
    out = run(["kdf"] + args).decode().strip()
    return out.replace(":", "").lower()


vec = {"argon2": [], "chacha20": [], "poly1305": [], "x25519": [], "ed25519": [], "scrypt": [], "hkdf": []}

# Argon2: types x versions x shapes that the RFC vectors do not reach (p=1, odd m, segment length > 128, long / short tags)
for ty in ("d", "i", "id"):
    for ver in (0x13, 0x10):
        for (t, p, m, taglen, pl, sl, kl, al) in [(1, 1, 8, 32, 8, 8, 0, 0), (2, 1, 13, 4, 0, 8, 0, 0), (1, 2, 19, 65, 5, 16, 3, 7),
                                                  (3, 3, 24, 128, 32, 8, 8, 0), (1, 1, 520, 32, 8, 8, 0, 0), (2, 2, 1040, 100, 8, 9, 0, 5),
                                                  (4, 5, 47, 33, 1, 8, 32, 1)]:
            pw, salt, key, ad = pat(5, 0, pl), pat(6, 0, sl), pat(7, 0, kl), pat(5, 9, al)
            a = ["-keylen", str(taglen), "-kdfopt", "hexpass:" + pw.hex(), "-kdfopt", "hexsalt:" + salt.hex(), "-kdfopt", "iter:%d" % t,
                 "-kdfopt", "memcost:%d" % m, "-kdfopt", "lanes:%d" % p, "-kdfopt", "version:%d" % ver]
            if kl:
                a += ["-kdfopt", "hexsecret:" + key.hex()]
            if al:
                a += ["-kdfopt", "hexad:" + ad.hex()]
            if pl == 0:
                a[3] = "pass:"
            a.append("ARGON2" + ty.upper())
            try:
                tag = kdf_hex(a)
            except RuntimeError as e:
                print("skip", ty, ver, t, p, m, taglen, str(e)[:80])
                continue
            vec["argon2"].append(dict(type=ty, version=ver, t=t, p=p, m=m, taglen=taglen, pw=pw.hex(), salt=salt.hex(), key=key.hex(), ad=ad.hex(), tag=tag))

# ChaCha20 (openssl enc -chacha20 takes a 16-byte iv = 32-bit LE counter || 96-bit nonce)
for kp in (5, 1):
    for ctr in (0, 1, 0xfffffffe, 0xffffffff):
        key, nonce = pat(kp, 0, 32), pat(7, 3, 12)
        iv = ctr.to_bytes(4, "little") + nonce
        n = 193
        out = run(["enc", "-chacha20", "-K", key.hex(), "-iv", iv.hex()], stdin=bytes(n))
        vec["chacha20"].append(dict(key=key.hex(), nonce=nonce.hex(), counter=ctr, keystream=out.hex()))

# Poly1305
for kp in (5, 1, 6):
    for n in (0, 1, 15, 16, 17, 63, 64, 80):
        key, msg = pat(kp, 0, 32), pat(2, 5, n)
        out = run(["mac", "-macopt", "hexkey:" + key.hex(), "-binary", "-in", "/dev/stdin", "POLY1305"], stdin=msg)
        vec["poly1305"].append(dict(key=key.hex(), msg=msg.hex(), tag=out.hex()))

# scrypt / HKDF
for (ln, r, p, dk) in ((1, 1, 1, 64), (4, 3, 2, 33), (10, 8, 1, 65)):
    pw, salt = pat(5, 0, 9), pat(6, 0, 13)
    out = kdf_hex(["-keylen", str(dk), "-kdfopt", "hexpass:" + pw.hex(), "-kdfopt", "hexsalt:" + salt.hex(), "-kdfopt", "n:%d" % (1 << ln),
                   "-kdfopt", "r:%d" % r, "-kdfopt", "p:%d" % p, "SCRYPT"])
    vec["scrypt"].append(dict(log_n=ln, r=r, p=p, pw=pw.hex(), salt=salt.hex(), out=out))
for dg in ("SHA1", "SHA256", "SHA512", "SHA3-256", "BLAKE2B-512"):
    for L in (1, 42, 200):
        ikm, salt, info = pat(5, 0, 22), pat(6, 0, 13), pat(7, 0, 10)
        out = kdf_hex(["-keylen", str(L), "-kdfopt", "digest:" + dg, "-kdfopt", "hexkey:" + ikm.hex(), "-kdfopt", "hexsalt:" + salt.hex(),
                       "-kdfopt", "hexinfo:" + info.hex(), "HKDF"])
        vec["hkdf"].append(dict(digest=dg, ikm=ikm.hex(), salt=salt.hex(), info=info.hex(), L=L, okm=out))

# X25519 / Ed25519 through PEM-less DER construction
def x25519_priv_der(k):
    return bytes.fromhex("302e020100300506032b656e04220420") + k
def x25519_pub_der(u):
    return bytes.fromhex("302a300506032b656e032100") + u
def ed_priv_der(k):
    return bytes.fromhex("302e020100300506032b657004220420") + k
import tempfile
tmp = tempfile.mkdtemp()
def wr(name, data):
    p = os.path.join(tmp, name)
    open(p, "wb").write(data)
    return p
for sp in (5, 6, 1):
    sk = pat(sp, 0, 32)
    skf = wr("sk.der", x25519_priv_der(sk))
    pub = run(["pkey", "-inform", "DER", "-in", skf, "-pubout", "-outform", "DER"])[-32:]
    for up in (7, 5):
        peer_sk = pat(up, 3, 32)
        pf = wr("psk.der", x25519_priv_der(peer_sk))
        peer_pub = run(["pkey", "-inform", "DER", "-in", pf, "-pubout", "-outform", "DER"])[-32:]
        ppf = wr("ppub.der", x25519_pub_der(peer_pub))
        ss = run(["pkeyutl", "-derive", "-keyform", "DER", "-inkey", skf, "-peerform", "DER", "-peerkey", ppf])
        vec["x25519"].append(dict(sk=sk.hex(), pub=pub.hex(), peer_pub=peer_pub.hex(), shared=ss.hex()))
    esk = wr("esk.der", ed_priv_der(sk))
    epub = run(["pkey", "-inform", "DER", "-in", esk, "-pubout", "-outform", "DER"])[-32:]
    for n in (1, 32, 65, 111, 200):
        msg = pat(2, 1, n)
        mf = wr("msg.bin", msg)
        sig = run(["pkeyutl", "-sign", "-keyform", "DER", "-inkey", esk, "-rawin", "-in", mf])
        vec["ed25519"].append(dict(seed=sk.hex(), pub=epub.hex(), msg=msg.hex(), sig=sig.hex()))

out = os.path.join(os.path.dirname(os.path.dirname(os.path.abspath(__file__))), "models", "kats", "openssl_cross.json")
json.dump(vec, open(out, "w"), indent=0)
print({k: len(v) for k, v in vec.items()})
