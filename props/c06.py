"""C06 - ChaCha20-Poly1305 equals RFC 8439; decrypt inverts encrypt, one-shot or streamed."""
from mc import core, explorer
from mc.patterns import pat, P, H, obs_of
from models import poly, stream, selfcheck

PROPERTY_ID = "C06"
RULE = ("one-shot: full product key length {16,32} x key pattern x nonce x AAD length x plaintext length over {0,1,15,16,17,63,64,65,257} "
        "(encrypt == model ciphertext and tag; decrypt of that returns the plaintext and true), rounds 8/12/20; incremental: explicit-state BFS of "
        "the phase machine AAD -> (to_encryption|to_decryption) -> data -> finalize with letters add_data(l), encrypt/encrypt_mut/decrypt/"
        "decrypt_mut(l), fork; states merged on (phase, aad bytes, data bytes, observed tag-of-clone), run until the frontier is empty within the "
        "byte bounds, so every partition of AAD and data into alphabet pieces is covered; in every state the tag of a finalized clone must equal "
        "the model tag of the bytes so far; non-trivial = some non-empty AAD or data; distinct = program text"
        " Also: every plaintext length 0..=200 and every AAD length 0..=80 one-shot; buffer placement (AAD and second data piece at every address offset mod 8, +8, 16, 33; lengths 1..=24, 30, 64, 65 after a first piece of every class mod 8); component shards: the Poly1305 limb-steering / corner-state / crafted inputs of C05 and the counter-bit and seek shards of C03 (the AEAD's MAC key and block counter cannot be steered through the AEAD itself); the corpus again on the build without SSE2 (the portable engines selected by the crate itself) and on the checked-arithmetic and native builds."
        " Interference: an incremental encrypt / decrypt pair and the one-shot pair per round count with the programs of every other object type (25 bystander programs) woven between the steps, two ways.")
ASSUMPTIONS = ["python RFC 8439 AEAD model (validated on 2.8.2) over the ChaCha model of C03", "128-bit keys use Bernstein's 16-byte constants, as the statement requires",
               "content of key/nonce/AAD/plaintext from the pattern alphabet"]

SHAPES = (0, 1, 15, 16, 17, 63, 64, 65, 257)
AAD_L = (0, 1, 15, 16, 17)
DATA_L = (0, 1, 15, 16, 17, 63, 64, 65)


def builds_needed(tier):
    return ["rel"]


# Own corpus re-run on other builds of the crate (mc/core.py: extra builds). Every observation is compared with the same model.
def extra_builds(tier):
    return [("relchk", None), ("native", None), ("fe32", None), ("nosse2", None)]



def bounds(tier):
    return {"oneshot_shapes": list(SHAPES), "incremental_aad_bytes": 67 if tier == "thorough" else 33,
            "incremental_data_bytes": 260 if tier == "thorough" else 130, "fork_tree_depth": 6 if tier == "thorough" else 5,
            "every_length": "plaintext 0..=200 (AAD 0, 13), AAD 0..=80", "buffer_address_offsets": "0..=8, 16, 33", "components": "C05 limb steering / corner / crafted inputs; C03 counter-bit and seek shards"}


def validate_models(tier):
    selfcheck.check_stream()
    selfcheck.check_poly()


class AeadSystem:
    """model state: tuple of up to 2 objects, each (phase, aad_len, data_len) with phase in A(ad) E(nc) D(ec) or None when consumed"""

    def __init__(self, rounds, keylen, tier, mode, direction=None):
        self.rounds = rounds
        self.kbytes = pat(6, 2, keylen)
        self.nonce = pat(7, 5, 12)
        self.karg, self.narg = P(6, 2, keylen), P(7, 5, 12)
        self.name = "aead/%d/k%d/%s/%s" % (rounds, keylen, mode, direction)
        self.mode = mode              # "graph" (single object, byte bounds) or "fork" (tree with clone, small alphabet)
        self.direction = direction    # graph mode explores one direction per system
        self.max_aad = 67 if tier == "thorough" else 33
        self.max_data = 260 if tier == "thorough" else 130
        n = 4096
        self.AAD = pat(2, 7, n)
        self.PT = pat(5, 1, n)
        self.CT = stream.xor(self.PT, stream.Stream("chacha", rounds, self.kbytes, self.nonce).keystream(1, 0, n))
        self._tags = {}

    def tag(self, a, d):
        t = self._tags.get((a, d))
        if t is None:
            t = poly.aead_tag(self.kbytes, self.nonce, self.AAD[:a], self.CT[:d], self.rounds)
            self._tags[(a, d)] = t
        return t

    def initial(self):
        return (("A", 0, 0), None), ["actx_new s0 %d %s %s" % (self.rounds, self.karg, self.narg)], ["-"]

    def terminal(self, m):
        return all(c is None for c in m)

    def letters(self, m, depth):
        out = []
        small = self.mode == "fork"
        for i in (0, 1):
            c = m[i]
            if c is None:
                continue
            ph, a, d = c
            if ph == "A":
                for l in ((1, 16) if small else AAD_L):
                    if a + l <= self.max_aad:
                        out.append(("a", i, l))
                if small or self.direction == "E":
                    out.append(("toenc", i))
                if small or self.direction == "D":
                    out.append(("todec", i))
            else:
                for l in ((1, 17, 64) if small else DATA_L):
                    if d + l <= self.max_data:
                        out.append(("x", i, l))
                        out.append(("xm", i, l))
                if small:
                    out.append(("fin", i))
        if self.mode == "fork" and m[1] is None and m[0] is not None:
            out.append(("k",))
        return out

    def step(self, m, letter):
        m = list(m)
        op = letter[0]
        if op == "k":
            m[1] = m[0]
            return tuple(m), ["aclone s0 s1"], ["-"]
        i = letter[1]
        ph, a, d = m[i]
        s = "s%d" % i
        if op == "a":
            l = letter[2]
            m[i] = (ph, a + l, d)
            return tuple(m), ["actx_aad %s %s" % (s, P(2, 7 + a, l))], ["-"]
        if op == "toenc":
            m[i] = ("E", a, d)
            return tuple(m), ["actx_toenc %s" % s], ["-"]
        if op == "todec":
            m[i] = ("D", a, d)
            return tuple(m), ["actx_todec %s" % s], ["-"]
        if op in ("x", "xm"):
            l = letter[2]
            m[i] = (ph, a, d + l)
            if ph == "E":
                name = "aenc" if op == "x" else "aenc_mut"
                return tuple(m), ["%s %s %s" % (name, s, P(5, 1 + d, l))], [obs_of(self.CT[d:d + l])]
            name = "adec" if op == "x" else "adec_mut"
            return tuple(m), ["%s %s %s" % (name, s, H(self.CT[d:d + l]))], [obs_of(self.PT[d:d + l])]
        if op == "fin":
            m[i] = None
            if ph == "E":
                return tuple(m), ["aenc_fin %s" % s], [obs_of(self.tag(a, d))]
            return tuple(m), ["adec_fin %s %s" % (s, H(self.tag(a, d)))], ["T"]
        raise ValueError(letter)

    def probes(self, m):
        ops, exp = [], []
        for i in (0, 1):
            c = m[i]
            if c is None:
                continue
            ph, a, d = c
            t = self.tag(a, d)
            if ph == "A":
                ops += ["aclone s%d s8" % i, "actx_toenc s8", "aenc_fin s8"]
                exp += ["-", "-", obs_of(t)]
            elif ph == "E":
                ops += ["aclone s%d s8" % i, "aenc_fin s8"]
                exp += ["-", obs_of(t)]
            else:
                bad = bytearray(t)
                bad[(a + d) % 16] ^= 1 << ((a + 3 * d) % 8)
                ops += ["aclone s%d s8" % i, "adec_fin s8 %s" % H(t), "aclone s%d s9" % i, "adec_fin s9 %s" % H(bad)]
                exp += ["-", "T", "-", "F"]
        return ops, exp

    def key(self, m):
        return m


def _nt(ops, meta):
    for o in ops:
        t = o.split()
        if t[0] in ("actx_aad", "aenc", "aenc_mut", "adec", "adec_mut", "aead_enc", "aead_dec", "aead_new") and not (t[-1].endswith(":0") or t[-1] == "h:"):
            return True
    return False


def _own_shards(tier):
    sh = [("shard_oneshot", (r, kl)) for r in (20, 8, 12) for kl in (32, 16)]
    sh += [("shard_everylen", r) for r in ((20, 8, 12) if tier == "thorough" else (20,))]
    for r in (8, 12, 20):
        for d in ("E", "D"):
            sh.append(("shard_graph", (r, 32, d)))
    sh.append(("shard_graph", (20, 16, "E")))
    sh.append(("shard_graph", (20, 16, "D")))
    if tier == "thorough":
        for r in (8, 12):
            sh.append(("shard_graph", (r, 16, "E")))
            sh.append(("shard_graph", (r, 16, "D")))
    for r in (8, 12, 20):
        sh.append(("shard_fork", (r, 32)))
    sh.append(("shard_align", 20))
    sh.append(("shard_interference", None))
    return sh


def shard_oneshot(arg, tier):
    rounds, kl = arg
    ck = core.Checker(PROPERTY_ID)
    cases = []
    shapes = SHAPES if (rounds == 20 or tier == "thorough") else (0, 1, 16, 17, 65)
    for kp in (6, 1):
        key = pat(kp, 2, kl)
        for np_ in (7, 0):
            nonce = pat(np_, 5, 12)
            for al in shapes:
                aad = pat(2, 7, al)
                for pl in shapes:
                    pt = pat(5, 1, pl)
                    ct, tag = poly.aead_encrypt(key, nonce, aad, pt, rounds)
                    cases.append((["aead_new s0 %d %s %s %s" % (rounds, P(kp, 2, kl), P(np_, 5, 12), P(2, 7, al)), "aclone s0 s1",
                                   "aead_enc s0 %s" % P(5, 1, pl), "aead_dec s1 %s %s" % (H(ct), H(tag))],
                                  ["-", "-", "%s.%s" % (obs_of(ct), obs_of(tag)), "T.%s" % obs_of(pt)], None))
    ck.run(cases, nontrivial=_nt)
    ck.stats.states = len(cases) + 1
    return ck.stats


def shard_everylen(rounds, tier):
    """every plaintext length 0..=200 (AAD 0 and 13 bytes) and every AAD length 0..=80 (plaintext 5 bytes), one-shot"""
    ck = core.Checker(PROPERTY_ID)
    cases = []
    key, nonce = pat(6, 2, 32), pat(7, 5, 12)
    shapes = [(al, pl) for al in (0, 13) for pl in range(0, 201)] + [(al, 5) for al in range(0, 81)]
    for al, pl in shapes:
        aad, pt = pat(2, 7, al), pat(5, 1, pl)
        ct, tag = poly.aead_encrypt(key, nonce, aad, pt, rounds)
        cases.append((["aead_new s0 %d %s %s %s" % (rounds, P(6, 2, 32), P(7, 5, 12), P(2, 7, al) if al else "h:"), "aclone s0 s1",
                       "aead_enc s0 %s" % (P(5, 1, pl) if pl else "h:"), "aead_dec s1 %s %s" % (H(ct), H(tag))],
                      ["-", "-", "%s.%s" % (obs_of(ct), obs_of(tag)), "T.%s" % obs_of(pt)], None))
    ck.run(cases, nontrivial=_nt)
    ck.stats.states = len(cases) + 1
    return ck.stats


def shard_align(rounds, tier):
    """where the caller's buffers lie (as C04's placement shard, through the AEAD): AAD, and the second plaintext / ciphertext piece of
    every length 1..=24 (+30, 64, 65) after a first piece of every length class modulo 8, in buffers starting at every address offset
    modulo 8 (+8, 16, 33) from a 64-byte boundary; encrypt in place, decrypt with separate buffers, and the one-shot interface"""
    from props.c04 import ALIGNS
    ck = core.Checker(PROPERTY_ID)
    cases = []
    key, nonce, aad = pat(6, 2, 32), pat(7, 5, 12), pat(2, 7, 13)
    new = "actx_new s0 %d %s %s" % (rounds, P(6, 2, 32), P(7, 5, 12))
    for pre in (0, 1, 3, 5, 8, 13):
        for n in tuple(range(1, 25)) + (30, 64, 65):
            pt = pat(5, 1, pre) + pat(5, 40, n)
            ct, tag = poly.aead_encrypt(key, nonce, aad, pt, rounds)
            for a in ALIGNS:
                first_e = ["aenc_mut s0 %s" % P(5, 1, pre)] if pre else []
                first_d = ["adec s1 %s" % H(ct[:pre])] if pre else []
                ops = [new, "actx_aad s0 @%d:%s" % ((a + 3) % 8, P(2, 7, 13)), "aclone s0 s1", "actx_toenc s0", "actx_todec s1"] + first_e + \
                      ["aenc_mut s0 @%d:%s" % (a, P(5, 40, n)), "aenc_fin s0"] + first_d + ["adec s1 @%d:%s" % (a, H(ct[pre:])), "adec_fin s1 %s" % H(tag)]
                exp = ["-"] * 5 + ([obs_of(ct[:pre])] if pre else []) + [obs_of(ct[pre:]), obs_of(tag)] + ([obs_of(pt[:pre])] if pre else []) + [obs_of(pt[pre:]), "T"]
                cases.append((ops, exp, None))
                if pre == 0:
                    cases.append((["aead_new s0 %d %s %s @%d:%s" % (rounds, P(6, 2, 32), P(7, 5, 12), (a + 3) % 8, P(2, 7, 13)), "aclone s0 s1",
                                   "aead_enc s0 @%d:%s" % (a, P(5, 40, n)), "aead_dec s1 @%d:%s @%d:%s" % (a, H(ct), (a + 5) % 8, H(tag))],
                                  ["-", "-", "%s.%s" % (obs_of(ct), obs_of(tag)), "T.%s" % obs_of(pt)], None))
    ck.run(cases, nontrivial=_nt)
    ck.stats.states = len(cases) + 1
    return ck.stats


def shard_interference(_, tier):
    """an incremental encryption and the decryption of its result (and the one-shot pair) with the programs of every other object type
    (props/common.py: bystanders) woven between the steps, two ways"""
    from .common import interference_cases
    ck = core.Checker(PROPERTY_ID)
    own = []
    for rounds in (8, 12, 20):
        key, nonce, aad, pt = pat(6, 2, 32), pat(7, 5, 12), pat(2, 7, 13), pat(5, 1, 5) + pat(5, 40, 70)
        ct, tag = poly.aead_encrypt(key, nonce, aad, pt, rounds)
        new = "actx_new s0 %d %s %s" % (rounds, P(6, 2, 32), P(7, 5, 12))
        own.append(([new, "actx_aad s0 %s" % P(2, 7, 13), "aclone s0 s1", "actx_toenc s0", "actx_todec s1", "aenc_mut s0 %s" % P(5, 1, 5), "aenc_mut s0 %s" % P(5, 40, 70),
                     "aenc_fin s0", "adec s1 %s" % H(ct[:33]), "adec_mut s1 %s" % H(ct[33:]), "adec_fin s1 %s" % H(tag)],
                    ["-"] * 5 + [obs_of(ct[:5]), obs_of(ct[5:]), obs_of(tag), obs_of(pt[:33]), obs_of(pt[33:]), "T"], None))
        own.append((["aead_new s0 %d %s %s %s" % (rounds, P(6, 2, 32), P(7, 5, 12), P(2, 7, 13)), "aclone s0 s1", "aead_enc s0 %s" % H(pt), "aead_dec s1 %s %s" % (H(ct), H(tag))],
                    ["-", "-", "%s.%s" % (obs_of(ct), obs_of(tag)), "T.%s" % obs_of(pt)], None))
    cs = interference_cases(own)
    ck.run(cs, nontrivial=_nt)
    ck.stats.states = len(cs) + 1
    return ck.stats


def _mk(ck):
    real = ck.run
    ck.run = lambda cases, nontrivial=True, count_trace=True: real(cases, nontrivial=_nt, count_trace=count_trace)


def shard_graph(arg, tier):
    rounds, kl, direction = arg
    ck = core.Checker(PROPERTY_ID)
    _mk(ck)
    n = explorer.explore(AeadSystem(rounds, kl, tier, "graph", direction), ck, "graph", 100000)
    ck.stats.extra["graph_states"] = n
    return ck.stats


def shard_fork(arg, tier):
    rounds, kl = arg
    ck = core.Checker(PROPERTY_ID)
    _mk(ck)
    explorer.explore(AeadSystem(rounds, kl, tier, "fork"), ck, "tree", 6 if tier == "thorough" else 5)
    return ck.stats


def shards(tier):
    from props import c05
    # the AEAD tag is a Poly1305 tag under a one-time key the caller cannot choose: the rare accumulator states of the MAC
    # (limb carries, the 2^130 wrap, the final conditional subtraction) are therefore driven on the MAC directly, as a component
    sh = _own_shards(tier) + [("shard_poly_component", ("shard_limbs", i)) for i in range(c05.NLIMB)] + [("shard_poly_component", ("shard_crafted", None))]
    # likewise the cipher half: block counters beyond the first few blocks (a message of 4 MiB and more) are reached by seek on the
    # same ChaCha context type the AEAD drives
    sh += [("shard_chacha_component", ("shard_counterbits", ("chacha", 20))), ("shard_chacha_component", ("shard_seekhist", 20))]
    return sh


def shard_chacha_component(arg, tier):
    from mc import multi
    return multi.run_component("c03", arg[0], arg[1], tier, PROPERTY_ID)


def shard_poly_component(arg, tier):
    from mc import multi
    return multi.run_component("c05", arg[0], arg[1], tier, PROPERTY_ID)
