"""C14 - Ed25519 verify accepts exactly the signatures satisfying the equation."""
from mc import core
from mc.patterns import pat, P, H, obs_of
from models import curve, selfcheck

PROPERTY_ID = "C14"
RULE = ("for each honest (seed, message) pair: the honest triple, all 512 single-bit flips of the signature, every bit of the key (256), every bit of the message "
        "(<= 16 bytes), S + k*L for every k with S + kL < 2^256; public keys and R drawn from the 8 small-order points, their non-canonical encodings "
        "(y+p, x=0 with sign bit), strings that are not points, the all-zero key; crafted (A small-order, S=0, R in the small subgroup) triples that satisfy the "
        "cofactorless equation; constructed (identity key, R = enc(S0*B), S0 + k*L) signatures for S0 = 2^k, 2^k - 1 and boundary values (canonical accepted, aliases rejected); pattern triples; the expected verdict is computed for every case by executing the statement in python (key decodes "
        "permissively and is not all-zero, S < L, encode(S*B - h*A) == R bytewise); non-trivial = mutated or adversarial case; distinct = program text"
        " Also: signature, key and message at every address offset modulo 8 (+16, 33); every message length 0..=386 with a model-made signature (accepted), an altered and a shortened message (rejected); component shards from C15: canonical-scalar decoder sets, wide reduction, digit recodings (hook), point codec; the corpus again on the checked-arithmetic, force-32bits and native builds.")
ASSUMPTIONS = ["python RFC 8032 arithmetic as in C13", "point decoding is permissive (y reduced mod p, x = 0 accepted with either sign), as in ref10 and this crate; "
               "the property lists non-canonical encodings separately from non-points"]

L = curve.L
PP = curve.P


def builds_needed(tier):
    return ["rel"]


# Own corpus re-run on other builds of the crate (mc/core.py: extra builds). Every observation is compared with the same model.
def extra_builds(tier):
    return [("relchk", None), ("fe32", None), ("native", None)]



def bounds(tier):
    return {"honest_pairs": len(pairs(tier)), "sig_bits": 512, "key_bits": 256, "S_plus_kL": "all k with S+kL < 2^256",
            "components": "C15 scalar, scalar hooks, codec", "every_message_length": "0..=386"}


def validate_models(tier):
    selfcheck.check_curve()


def pairs(tier):
    ps = [(pat(5, 0, 32), pat(2, 3, 16)), (pat(6, 0, 32), b""), (bytes(32), pat(5, 1, 1)), (b"\xff" * 32, pat(5, 1, 65)),
          (pat(7, 0, 32), pat(6, 1, 111)), (pat(2, 0, 32), pat(6, 1, 112)), (pat(5, 77, 32), pat(6, 1, 13)), (pat(6, 77, 32), pat(5, 9, 200))]
    return ps if tier == "thorough" else ps[:3]


def case(msg, pub, sig, mutated=True):
    v = curve.ed_verify(msg, pub, sig)
    return (["ed_verify %s %s %s" % (H(msg), H(pub), H(sig))], ["T" if v else "F"], {"mut": mutated, "accept": v})


def special_points():
    """encodings: small-order points, non-canonical twins, x=0 with sign bit, non-points, all-zero"""
    out = []
    for p in curve.small_order_points():
        e = curve.pt_encode(p)
        out.append(e)
        v = int.from_bytes(e, "little")
        y, sign = v & ((1 << 255) - 1), v >> 255
        if y + PP < (1 << 255):
            out.append(((y + PP) | (sign << 255)).to_bytes(32, "little"))
        if p[0] == 0:
            out.append((y | (1 << 255)).to_bytes(32, "little"))
            if y + PP < (1 << 255):
                out.append(((y + PP) | (1 << 255)).to_bytes(32, "little"))
    # y + p for every y < 19 (whether or not it is on the curve), both signs
    for y in range(19):
        for sign in (0, 1):
            out.append(((y + PP) | (sign << 255)).to_bytes(32, "little"))
    # first strings that are not points
    n, y = 0, 2
    while n < 16:
        if curve.recover_x(y, 0) is None:
            out.append(y.to_bytes(32, "little"))
            out.append((y | (1 << 255)).to_bytes(32, "little"))
            n += 1
        y += 1
    out.append(bytes(32))
    out.append(b"\xff" * 32)
    res = []
    for e in out:
        if e not in res:
            res.append(e)
    return res


def pair_cases(i, tier):
    seed, msg = pairs(tier)[i]
    kp, pub = curve.ed_keypair(seed)
    sig = curve.ed_sign(msg, seed)
    out = [case(msg, pub, sig, False)]
    for bit in range(512):
        s2 = bytearray(sig)
        s2[bit // 8] ^= 1 << (bit % 8)
        out.append(case(msg, pub, bytes(s2)))
    for bit in range(256):
        p2 = bytearray(pub)
        p2[bit // 8] ^= 1 << (bit % 8)
        out.append(case(msg, bytes(p2), sig))
    if len(msg) <= 16:
        for bit in range(8 * len(msg)):
            m2 = bytearray(msg)
            m2[bit // 8] ^= 1 << (bit % 8)
            out.append(case(bytes(m2), pub, sig))
    out.append(case(msg + b"\x00", pub, sig))
    if msg:
        out.append(case(msg[:-1], pub, sig))
    S = int.from_bytes(sig[32:], "little")
    k = 1
    while S + k * L < (1 << 256):
        out.append(case(msg, pub, sig[:32] + (S + k * L).to_bytes(32, "little")))
        k += 1
    # adversarial keys / R with this message
    sp = special_points()
    for a in sp:
        out.append(case(msg, a, sig))
        out.append(case(msg, a, sig[:32] + bytes(32)))
        out.append(case(msg, pub, a + sig[32:]))
    return out


def crafted_cases(tier):
    """(A small-order, S = 0, R small-order) triples; some satisfy the cofactorless equation and must then be accepted unless A is all-zero"""
    out = []
    so_enc = [curve.pt_encode(p) for p in curve.small_order_points()]
    keys = [e for e in special_points() if curve.pt_decode(e) is not None and curve.pt_eq(curve.pt_mul(8, curve.pt_decode(e)), curve.IDENT)]
    nmsg = 24 if tier == "thorough" else 8
    for a in keys:
        for mi in range(nmsg):
            msg = pat(5, mi, mi)
            for r in so_enc:
                for s in (0, L):
                    out.append(case(msg, a, r + s.to_bytes(32, "little")))
    # constructed signatures with chosen S under the identity key (h*A is the identity for every h, so R = enc(S*B) verifies):
    # (R, S0) must be accepted for canonical S0, (R, S0 + L) and other non-canonical aliases must be rejected for every S0 shape
    ident = curve.pt_encode(curve.IDENT)
    s0s = [0, 1, 2, L - 1, L - 2, (1 << 252) - 1, 1 << 251]
    s0s += [(1 << k) - 1 for k in range(1, 253)] + [1 << k for k in range(0, 252)]
    for s0 in s0s:
        if s0 >= L:
            continue
        r = curve.pt_encode(curve.base_mul(s0))
        msg = b"chosen-S"
        out.append(case(msg, ident, r + s0.to_bytes(32, "little")))
        k = 1
        while s0 + k * L < (1 << 256):
            if k in (1, 2, 15) or (s0 + (k + 1) * L) >= (1 << 256):
                out.append(case(msg, ident, r + (s0 + k * L).to_bytes(32, "little")))
            k += 1
    # pattern triples
    for k in (5, 6, 7, 2):
        out.append(case(pat(k, 0, 20), pat(k, 20, 32), pat(k, 60, 64)))
    return out


def cases(tier):
    out = []
    for i in range(len(pairs(tier))):
        out += pair_cases(i, tier)
    return out + crafted_cases(tier)


def _own_shards(tier):
    return [("shard_pair", i) for i in range(len(pairs(tier)))] + [("shard_crafted", None)] + [("shard_msglen", k) for k in range(4)] + [("shard_placement", None)]


def _nt(ops, meta):
    return bool(meta and meta.get("mut"))


def shard_pair(i, tier):
    ck = core.Checker(PROPERTY_ID)
    cs = pair_cases(i, tier)
    ck.run(cs, nontrivial=_nt)
    ck.stats.states = len(cs)
    ck.stats.extra["accepting_cases"] = sum(1 for c in cs if c[2]["accept"])
    return ck.stats


MSGLEN_TOP = 3 * 128 + 2


def shard_msglen(part, tier):
    """every message length 0..=3*128+2 (every residue of the length of R || A || M modulo the SHA-512 block, three blocks deep): the
    honest signature (made by the python model, so signing and verifying cannot be wrong together), the same with the last message
    byte altered, and with the message one byte short"""
    ck = core.Checker(PROPERTY_ID)
    seed = pat(5, 11, 32)
    _, pub = curve.ed_keypair(seed)
    cs = []
    for n in range(part, MSGLEN_TOP + 1, 4):
        msg = pat(6, 2, n)
        sig = curve.ed_sign(msg, seed)
        cs.append(case(msg, pub, sig, False))
        if n:
            cs.append(case(msg[:-1] + bytes([msg[-1] ^ 1]), pub, sig))
            cs.append(case(msg[:-1], pub, sig))
    ck.run(cs, nontrivial=lambda ops, meta: True)
    ck.stats.states = len(cs)
    ck.stats.extra["accepting_cases"] = sum(1 for c in cs if c[2]["accept"])
    return ck.stats


def shard_placement(_, tier):
    """where the caller's arrays lie: the honest triple (accepted) and the triple with one signature bit altered (rejected) with the
    signature, the key and the message each at every address offset modulo 8 (and 16, 33) from a 64-byte boundary, for a short and a
    multi-block message (the executor hands verify references into the placed buffers, it does not copy them)"""
    ck = core.Checker(PROPERTY_ID)
    seed = pat(5, 11, 32)
    _, pub = curve.ed_keypair(seed)
    cs = []
    offs = list(range(8)) + [16, 33]
    for n in (5, 400):
        msg = pat(6, 2, n)
        sig = curve.ed_sign(msg, seed)
        bad = bytearray(sig)
        bad[7] ^= 4
        bad = bytes(bad)
        for om in offs:
            for (op_, os_) in [(o, o) for o in offs] + [(0, o) for o in offs] + [(o, (o + 3) % 8) for o in offs]:
                cs.append((["ed_verify @%d:%s @%d:%s @%d:%s" % (om, H(msg), op_, H(pub), os_, H(sig))], ["T"], {"mut": False, "accept": True}))
                cs.append((["ed_verify @%d:%s @%d:%s @%d:%s" % (om, H(msg), op_, H(pub), os_, H(bad))], ["F"], {"mut": True, "accept": False}))
    ck.run(cs, nontrivial=lambda ops, meta: True)
    ck.stats.states = len(cs)
    ck.stats.extra["accepting_cases"] = sum(1 for c in cs if c[2]["accept"])
    return ck.stats


def shard_crafted(_, tier):
    ck = core.Checker(PROPERTY_ID)
    cs = crafted_cases(tier)
    ck.run(cs, nontrivial=_nt)
    ck.stats.states = len(cs)
    ck.stats.extra["accepting_cases"] = sum(1 for c in cs if c[2]["accept"])
    ck.stats.extra["crafted_small_order_accepts"] = sum(1 for c in cs if c[2]["accept"])
    return ck.stats


def shards(tier):
    # verification is a canonical-scalar check, a wide reduction, a point decoding and a double-scalar multiplication: the scalar / recoding / codec programs of C15 drive their rare paths directly, as a component of this property
    from props import c15
    comp = []
    for fname in ['shard_scalar', 'shard_scalar_hooks', 'shard_codec']:
        comp += [("shard_c15_component", (f, a)) for (f, a) in c15.shards(tier) if f == fname]
    return _own_shards(tier) + comp


def shard_c15_component(arg, tier):
    from mc import multi
    return multi.run_component("c15", arg[0], arg[1], tier, PROPERTY_ID)
