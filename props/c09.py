"""C09 - MAC and legacy digest objects: reset re-keys, results never silently change."""
from mc import core, explorer
from mc.patterns import pat, P, H, obs_of
from models import hashes, macs, poly, selfcheck

PROPERTY_ID = "C09"
RULE = ("explicit-state BFS over lifecycle histories of Hmac<D>, Poly1305, legacy keyed Blake2b/Blake2s (as Mac and as Digest) and the legacy digest "
        "objects; letters input(l) for l in {0,1,blk,blk+1,2blk} (blk = 16 for Poly1305, block size otherwise), result, raw_result, result_str (legacy digests), reset, clone, and for "
        "legacy BLAKE2 the inherent reset / reset_with_key(k); model = lifecycle automaton (key, bytes since reset, finalised): first result must be the "
        "MAC/digest, a repeated result must be the same bytes or a panic, input after result must panic, reset gives a fresh object with the same key; "
        "tree mode = every letter sequence to the depth bound with up to 2 objects, graph mode = merge on (automaton state, observed result-of-clone) until "
        "the frontier is empty within 4 blocks and 2 resets; legacy digests are compared with the one-shot reference in every state"
        " Also: HMAC keys of exactly one block; the letter 'result into a buffer one byte short' (must refuse; afterwards a further result must refuse again or be right, reset revives); Digest::input_str for every legacy digest; component shards: C05's Poly1305 limb-steering / corner-state / crafted inputs; tree shards again on the checked-arithmetic build, graph shards of SHA-256 / BLAKE2 objects on the +avx and native builds."
        " Interference: one history per object type with the programs of every other object type (25 bystander programs: hash contexts, one-shots, MACs, legacy digests, stream ciphers, DRG, AEAD, KDFs, Argon2, X25519, Ed25519) woven between its steps, round-robin and whole-program-after-every-step."
        " Every HMAC digest parameterisation (21) with keys of 5, B-1, B, B+1, 2B+3 bytes through the basic lifecycle. Big calls: one input of 8 / 9 / 16 / 17 / 33 whole blocks (+0 / +5 bytes) on every object type, fresh, after a short input and after reset, also on the vector builds. Many calls: 66000 one-byte / empty inputs on one object of every type, result, reset, reuse.")
ASSUMPTIONS = ["reference hashes, RFC 2104 HMAC, big-integer Poly1305 as in C01/C05/C08", "nothing is required of an object after a panic unwound through it (the history of that object ends)",
               "a repeated result may either repeat the bytes or panic; any other value is a violation"]


def builds_needed(tier):
    return ["rel"]


# Own corpus re-run on other builds of the crate (mc/core.py: extra builds). Every observation is compared with the same model.
def extra_builds(tier):
    def vec(fname, i):
        # the vector code is in the block functions: the graph shards (every partition of 4 blocks) of the digests that have one
        if fname == "shard_bigcall":
            return True
        if fname not in ("shard_graph", "shard_tree"):
            return False
        n = specs(tier)[i][0]
        if fname == "shard_tree":
            # the five-block input letter exists in tree mode only: the SHA-256 multi-block vector paths need it
            return "sha256" in n or "sha224" in n
        return "sha256" in n or "sha224" in n or "blake2" in n

    def chk(fname, i):
        # checked-arithmetic build: every lifecycle history of the tree shards
        return fname in ("shard_tree", "shard_input_str", "shard_bigcall", "shard_all_hmacs")
    # the force-32bits feature is meant to switch the curve backend only; a cfg(feature) branch elsewhere would change MACs too
    return [("relchk", chk), ("avx", vec), ("native", vec), ("fe32", lambda f, a: f == "shard_tree" or f.endswith("_component") or f == "shard_input_str")]



def bounds(tier):
    return {"tree_depth": "4 (5 for Poly1305, Hmac<Sha256>, legacy Sha3_256)" if tier == "thorough" else 3, "graph_bytes": "4 blocks", "graph_resets": 2, "objects": 2,
            "hmac_key_lengths": "5, B, B+9", "refused_result_letter": True, "input_str": True, "components": "C05 limb steering / corner / crafted inputs"}


def validate_models(tier):
    selfcheck.check_macs()
    selfcheck.check_poly()


HM_QUICK = ["sha1", "sha256", "sha512", "sha3_256", "keccak256", "ripemd160", "blake2b:32", "blake2s:32"]
HM_ALL = ["sha1", "sha224", "sha256", "sha384", "sha512", "sha512_224", "sha512_256", "sha3_224", "sha3_256", "sha3_384", "sha3_512",
          "keccak224", "keccak256", "keccak384", "keccak512", "ripemd160", "blake2b:1", "blake2b:32", "blake2b:64", "blake2s:1", "blake2s:32"]
DIGESTS = ["sha1", "sha224", "sha256", "sha384", "sha512", "sha512_224", "sha512_256", "sha3_224", "sha3_256", "sha3_384", "sha3_512",
           "keccak224", "keccak256", "keccak384", "keccak512", "ripemd160"]


def specs(tier):
    """(name, api 'm'|'d', new tokens after slot, block, clone?, blake2 which|None, outlen, initial key, mac function(key, data))"""
    out = []
    for k in (HM_ALL if tier == "thorough" else HM_QUICK):
        _, B, D = macs.kind_info(k)
        for key in (pat(6, 0, 5), pat(6, 0, B), pat(6, 0, B + 9)):
            out.append(("hmac-%s-k%d" % (k, len(key)), "m", "hmac %s %s" % (k, H(key)), B, False, None, D, key,
                        (lambda kk: (lambda key, data: macs.hmac(kk, key, data)))(k)))
    for key in (pat(6, 0, 32), b"\xff" * 32):
        out.append(("poly1305-%s" % key[:2].hex(), "m", "poly1305 %s" % H(key), 16, True, None, 16, key, lambda key, data: poly.poly1305(key, data)))
    for which, B, mx in (("b", 128, 64), ("s", 64, 32)):
        nm = "blake2" + which
        for o, key in ((mx, pat(6, 0, mx)), (20, pat(6, 0, 3))):
            f = (lambda w, oo: (lambda key, data: hashes.blake2(w, data, oo, key)))(which, o)
            out.append(("%s-mac-%d-k%d" % (nm, o, len(key)), "m", "%s %d %s" % (nm, o, H(key)), B, True, which, o, key, f))
            out.append(("%s-digest-%d-k%d" % (nm, o, len(key)), "d", "%s %d %s" % (nm, o, H(key)), B, True, which, o, key, f))
        f = (lambda w, oo: (lambda key, data: hashes.blake2(w, data, oo, key)))(which, mx // 2)
        out.append(("%s-digest-%d-unkeyed" % (nm, mx // 2), "d", "%s %d" % (nm, mx // 2), B, True, which, mx // 2, b"", f))
    for k in DIGESTS:
        B, D = hashes.FIXED[k]
        out.append(("digest-%s" % k, "d", k, B, True, None, D, b"", (lambda kk: (lambda key, data: hashes.digest(kk, data)))(k)))
    return out


class LifeSystem:
    """object model state: (key, epoch, data, fin) ; fin in (None, 'once', 'done') ; None entry = dead / absent"""

    def __init__(self, spec, tier, graph):
        (self.name, self.api, self.new, self.B, self.clonable, self.which, self.D, self.key0, self.mac) = spec
        self.graph = graph
        self.L = (0, 1, self.B, self.B + 1, 2 * self.B)
        self.max_bytes = 4 * self.B
        self.max_resets = 2
        mx = 64 if self.which == "b" else 32
        self.keys = [b"", pat(7, 0, 1), pat(7, 0, mx)]
        self._c = {}

    def M(self, key, data):
        r = self._c.get((key, data))
        if r is None:
            r = self.mac(key, data)
            self._c[(key, data)] = r
        return r

    def opn(self, base):
        return ("m" if self.api == "m" else "d") + base

    def initial(self):
        return ((self.key0, 0, b"", None), None), ["%s s0 %s" % (self.opn("new"), self.new)], ["-"]

    def terminal(self, m):
        return all(c is None for c in m)

    def letters(self, m, depth):
        out = []
        for i in (0, 1):
            c = m[i]
            if c is None:
                continue
            key, epoch, data, fin = c
            if fin == "done":
                # after a repeated result only reset continues the history
                if epoch < self.max_resets or not self.graph:
                    out.append(("reset", i))
                continue
            if fin == "poison":
                # after a refused (wrong-length) result: a further result must refuse again or be the right value; reset revives
                out.append(("res", i))
                out.append(("raw" if self.api == "m" else "rstr", i))
                out.append(("reset", i))
                continue
            for l in self.L + ((5 * self.B + 1,) if not self.graph else ()):
                if self.graph and len(data) + l > self.max_bytes:
                    continue
                out.append(("in", i, l))
            out.append(("res", i))
            if self.api == "m":
                out.append(("raw", i))
            else:
                out.append(("rstr", i))
            if not self.graph and fin is None:
                out.append(("bad", i))
            if epoch < self.max_resets or not self.graph:
                out.append(("reset", i))
                if self.which:
                    out.append(("b2reset", i))
                    for ki in range(3):
                        out.append(("b2key", i, ki))
        if self.clonable and not self.graph and m[0] is not None and m[1] is None:
            out.append(("k",))
        return out

    def step(self, m, letter):
        m = list(m)
        op = letter[0]
        if op == "k":
            m[1] = m[0]
            return tuple(m), ["%s s0 s1" % self.opn("clone")], ["-"]
        i = letter[1]
        key, epoch, data, fin = m[i]
        s = "s%d" % i
        if op == "in":
            l = letter[2]
            off = epoch * 613 + len(data)
            arg = P(5, off, l)
            if fin is not None:
                m[i] = None
                return tuple(m), ["%s %s %s" % (self.opn("input"), s, arg)], ["PANIC"]
            m[i] = (key, epoch, data + pat(5, off, l), None)
            return tuple(m), ["%s %s %s" % (self.opn("input"), s, arg)], ["-"]
        if op == "bad":
            # result into a buffer one byte short: a loud refusal; it must not leave an object that later answers with a wrong value
            n = self.D - 1 if self.D > 1 else self.D + 1
            m[i] = (key, epoch, data, "poison")
            return tuple(m), ["%s %s %d" % ("mraw" if self.api == "m" else "dresult", s, n)], ["PANIC"]
        if op in ("res", "raw", "rstr"):
            name = {"res": self.opn("result"), "raw": "mraw", "rstr": "dresult_str"}[op]
            val = obs_of(self.M(key, data))
            if op == "rstr":
                val = "str:" + self.M(key, data).hex()
            if fin is None:
                m[i] = (key, epoch, data, "once")
                return tuple(m), ["%s %s" % (name, s)], [val]
            if fin == "poison" and op == "rstr":
                m[i] = (key, epoch, data, "done")
                return tuple(m), ["%s %s" % (name, s)], [(val, "PANIC")]
            m[i] = (key, epoch, data, "done")
            return tuple(m), ["%s %s" % (name, s)], [(val, "PANIC")]
        if op == "reset":
            m[i] = (key, epoch + 1, b"", None)
            return tuple(m), ["%s %s" % (self.opn("reset"), s)], ["-"]
        if op == "b2reset":
            m[i] = (b"", epoch + 1, b"", None)
            return tuple(m), ["%s %s" % (self.opn("b2reset"), s)], ["-"]
        if op == "b2key":
            k = self.keys[letter[2]]
            m[i] = (k, epoch + 1, b"", None)
            return tuple(m), ["%s %s %s" % (self.opn("b2reset_key"), s, H(k))], ["-"]
        raise ValueError(letter)

    def probes(self, m):
        ops, exp = [], []
        if not self.clonable:
            return ops, exp
        for i in (0, 1):
            c = m[i]
            if c is None or c[3] is not None:
                continue
            key, epoch, data, fin = c
            ops += ["%s s%d s9" % (self.opn("clone"), i), "%s s9" % self.opn("result")]
            exp += ["-", obs_of(self.M(key, data))]
        return ops, exp

    def key(self, m):
        return tuple(None if c is None else (c[0], c[1], len(c[2]), c[3]) for c in m)


def _nt(ops, meta):
    for o in ops:
        t = o.split()
        if t[0] in ("minput", "dinput") and not t[-1].endswith(":0"):
            return True
    return False


def _mk(ck):
    real = ck.run
    ck.run = lambda cases, nontrivial=True, count_trace=True: real(cases, nontrivial=_nt, count_trace=count_trace)


def shards(tier):
    from props import c05
    n = len(specs(tier))
    sh = [("shard_tree", i) for i in range(n)] + [("shard_graph", i) for i in range(n)] + [("shard_input_str", None), ("shard_interference", None), ("shard_bigcall", None), ("shard_all_hmacs", None)] + [("shard_many_calls", k) for k in range(6)]
    # the value a Poly1305 object returns depends on rare accumulator states that no history alphabet reaches: C05's steering,
    # corner and crafted inputs run here as a component (first result of a fresh object)
    sh += [("shard_poly_component", ("shard_limbs", i)) for i in range(c05.NLIMB)] + [("shard_poly_component", ("shard_crafted", None))]
    return sh


def shard_interference(_, tier):
    """one lifecycle per object type (input, result, reset, input, result) with the programs of every other object type
    (props/common.py: bystanders) woven between its steps, two ways: an object's answers must not depend on which other objects exist
    or were used in between"""
    from .common import interference_cases
    ck = core.Checker(PROPERTY_ID)
    _mk(ck)
    own = []
    for (name, api, new, B, clonable, which, D, key0, mac) in specs(tier):
        if new.startswith("hmac") and len(key0) != 5:
            continue            # one key length per HMAC digest is enough here
        a, b = pat(5, 0, B + 3), pat(5, 700, 2 * B - 1)
        pre = "m" if api == "m" else "d"
        ops = ["%snew s0 %s" % (pre, new), "%sinput s0 %s" % (pre, P(5, 0, B + 3)), "%sresult s0" % pre, "%sreset s0" % pre,
               "%sinput s0 %s" % (pre, P(5, 700, 2 * B - 1)), "%sresult s0" % pre]
        own.append((ops, ["-", "-", obs_of(mac(key0, a)), "-", "-", obs_of(mac(key0, b))], None))
    cs = interference_cases(own)
    ck.run(cs)
    ck.stats.states += len(cs)
    return ck.stats


def shard_many_calls(part, tier):
    """very many calls on one object: 66000 one-byte inputs, 66000 empty inputs around real ones; result, reset, a short second message"""
    ck = core.Checker(PROPERTY_ID)
    _mk(ck)
    cases = []
    n = 66000
    sp = [x for x in specs(tier) if not (x[2].startswith("hmac") and len(x[7]) != 5)]
    for (name, api, new, B, clonable, which, D, key0, mac) in sp[part::6]:
        pre = "m" if api == "m" else "d"
        one, tail = pat(5, 0, 1), pat(5, 9, 3)
        cases.append((["%snew s0 %s" % (pre, new), "%sinput_rep s0 %s %d" % (pre, P(5, 0, 1), n), "%sresult s0" % pre, "%sreset s0" % pre,
                       "%sinput_rep s0 h: %d" % (pre, n), "%sinput s0 %s" % (pre, P(5, 9, 3)), "%sinput_rep s0 h: 300" % pre, "%sresult s0" % pre],
                      ["-", "-", obs_of(mac(key0, one * n)), "-", "-", "-", "-", obs_of(mac(key0, tail))], None))
    ck.run(cases)
    ck.stats.states += len(cases)
    return ck.stats


def shard_all_hmacs(_, tier):
    """the quick tier explores the full lifecycle graph for eight HMAC digests; here every one of the 21 digest parameterisations
    gets the basic lifecycle (input in two pieces, result, repeated result, reset, input, raw result; and reset before any result)
    with keys of 5, B-1, B, B+1 and 2B+3 bytes, so that what the wrapper reports about itself (block size, output size) is exercised
    for each of them"""
    ck = core.Checker(PROPERTY_ID)
    _mk(ck)
    cases = []
    for k in HM_ALL:
        _, B, D = macs.kind_info(k)
        for kl in (5, B - 1, B, B + 1, 2 * B + 3):
            key = pat(6, 0, kl)
            a, b2 = pat(5, 0, B + 3), pat(5, 700, 7)
            ma, mb = obs_of(macs.hmac(k, key, a)), obs_of(macs.hmac(k, key, b2))
            new = "mnew s0 hmac %s %s" % (k, H(key))
            cases.append(([new, "minput s0 %s" % P(5, 0, 3), "minput s0 %s" % P(5, 3, B), "mresult s0", "mresult s0", "mreset s0", "minput s0 %s" % P(5, 700, 7), "mraw s0"],
                          ["-", "-", "-", ma, (ma, "PANIC"), "-", "-", mb], None))
            cases.append(([new, "minput s0 %s" % P(5, 0, 3), "mreset s0", "minput s0 %s" % P(5, 700, 7), "mresult s0"], ["-", "-", "-", "-", mb], None))
    ck.run(cases)
    ck.stats.states += len(cases)
    return ck.stats


def shard_bigcall(_, tier):
    """one input call of many whole blocks (8, 9, 16, 17, 33 blocks, with and without a few extra bytes) on every object type, fresh,
    after a short first input, and after result + reset: the multi-block paths underneath (8-way / 4-way batches and their
    remainders) as an object user reaches them"""
    ck = core.Checker(PROPERTY_ID)
    _mk(ck)
    cases = []
    sp = [x for x in specs(tier) if not (x[2].startswith("hmac") and len(x[7]) != 5)]
    for (name, api, new, B, clonable, which, D, key0, mac) in sp:
        pre = "m" if api == "m" else "d"
        for k in (8, 9, 16, 17, 33):
            for extra in (0, 5):
                n = k * B + extra
                big = pat(5, 50, n)
                cases.append((["%snew s0 %s" % (pre, new), "%sinput s0 %s" % (pre, P(5, 50, n)), "%sresult s0" % pre, "%sreset s0" % pre,
                               "%sinput s0 %s" % (pre, P(5, 0, 3)), "%sinput s0 %s" % (pre, P(5, 50, n)), "%sresult s0" % pre],
                              ["-", "-", obs_of(mac(key0, big)), "-", "-", "-", obs_of(mac(key0, pat(5, 0, 3) + big))], None))
    ck.run(cases)
    ck.stats.states += len(cases)
    return ck.stats


def shard_poly_component(arg, tier):
    from mc import multi
    return multi.run_component("c05", arg[0], arg[1], tier, PROPERTY_ID)


def shard_input_str(_, tier):
    """Digest::input_str (text input) of every legacy digest object, alone and mixed with input: the digest of the same bytes"""
    ck = core.Checker(PROPERTY_ID)
    _mk(ck)
    cases = []
    kinds = [(k, k, hashes.FIXED[k][0], (lambda kk: (lambda d: hashes.digest(kk, d)))(k)) for k in DIGESTS]
    kinds += [("blake2b 64", "blake2b", 128, lambda d: hashes.blake2("b", d, 64, b"")), ("blake2s 32", "blake2s", 64, lambda d: hashes.blake2("s", d, 32, b""))]
    for new, _, B, f in kinds:
        for l in (0, 1, B - 1, B, B + 1, 2 * B + 3):
            txt = bytes(0x20 + (i * 7) % 95 for i in range(l))
            cases.append((["dnew s0 %s" % new, "dinput_str s0 %s" % H(txt), "dresult s0"], ["-", "-", obs_of(f(txt))], None))
            cases.append((["dnew s0 %s" % new, "dinput s0 %s" % P(5, 0, 3), "dinput_str s0 %s" % H(txt), "dinput s0 %s" % P(5, 3, 1), "dresult s0"],
                          ["-", "-", "-", "-", obs_of(f(pat(5, 0, 3) + txt + pat(5, 3, 1)))], None))
    ck.run(cases)
    ck.stats.states += len(cases)
    return ck.stats


def shard_tree(i, tier):
    ck = core.Checker(PROPERTY_ID)
    _mk(ck)
    spec = specs(tier)[i]
    depth = 4 if tier == "thorough" else 3
    if tier == "thorough" and (spec[0].startswith("poly1305-06") or spec[0] == "hmac-sha256-k5" or spec[0] == "digest-sha3_256"):
        depth = 5
    explorer.explore(LifeSystem(spec, tier, False), ck, "tree", depth)
    return ck.stats


def shard_graph(i, tier):
    ck = core.Checker(PROPERTY_ID)
    _mk(ck)
    n = explorer.explore(LifeSystem(specs(tier)[i], tier, True), ck, "graph", 100000)
    ck.stats.extra["graph_states"] = n
    return ck.stats
