"""C20 - valid inputs never panic or vary with build profile; misuse fails loudly."""
from mc import core, multi
from mc.patterns import pat, P, H, obs_of
from models import hashes, stream, selfcheck

PROPERTY_ID = "C20"
RULE = ("in-domain corpus = every quick-tier shard of C01-C15 (every API entry point appears there) re-executed on the debug-profile executor and on the release executor "
        "with overflow checks and debug assertions, plus counter-crossing programs through the hooks (BLAKE2s/BLAKE2b byte counters preset next to 2^32 / 2^64 and to the "
        "high-word wrap, cipher block counters at their word boundaries) on all three builds: no step may panic, every observation must equal the model and the ordered "
        "transcripts of the three builds must be identical shard by shard; misuse corpus = per entry point every documented-invalid argument shape (lengths one below / one "
        "above, zero, large; unsupported rounds; over-limit requests; reuse of one-shot objects): the observation must be a panic or error on all three builds, never a value; "
        "thorough additionally runs the misuse corpus under valgrind memcheck; counts are summed over builds; distinct = program text"
        " Also: the counter-crossing programs on the +avx and native builds.")
ASSUMPTIONS = ["reference models as in C01-C15; python BLAKE2 with preset counter validated against hashlib for counter 0",
               "panic messages are not compared, only panic vs value", "hash length counters (2^61 bytes) are neither reachable nor hookable: not explored",
               "Argon2 short salts/tags and the silent raise of too-small memory are documented as unchecked and outside the claim"]

BUILDS = ["rel", "dbg", "relchk"]
CORPUS_MODS = ["c01", "c02", "c03", "c04", "c05", "c06", "c07", "c08", "c09", "c10", "c11", "c12", "c13", "c14", "c15"]


VECCHK = ["sse41chk", "nativechk"]


def builds_needed(tier):
    return BUILDS + ["avx", "native"] + VECCHK


def bounds(tier):
    return {"builds": BUILDS, "in_domain_corpus": "all quick shards of C01-C15 on dbg and relchk (quick: the tree shards of C02/C04/C06/C07/C09 and the large enumerations alternate between the two builds, their graph shards run on relchk only; thorough: every shard on both); rel is covered by the properties themselves and by the hook programs here",
            "memcheck": tier == "thorough"}


def validate_models(tier):
    hashes.self_check(False)
    selfcheck.check_stream()


HEAVY = ("c02", "c04", "c06", "c07", "c09")
# large enumerations that the owning property already re-runs on the checked release build itself: here they alternate between the two
# checked builds in the quick tier as well
HEAVY_SHARDS = ("shard_msglen", "shard_align", "shard_placement", "shard_limbs", "shard_scalar_hooks", "shard_big", "shard_everylen", "shard_sweep", "shard_scalar", "shard_dsm", "shard_key")


def shards(tier):
    jobs = multi.foreign_jobs(CORPUS_MODS, "quick", ["dbg", "relchk"])
    # half-gigabyte messages are hashed on the optimised checked build only (the debug profile needs minutes for them)
    jobs = [j for j in jobs if not (j[1] == "shard_huge" and j[3] == "dbg")]
    if tier != "thorough":
        # quick: the five history-heavy corpora are split between the two checked builds (each shard runs on one of them, alternating),
        # everything else runs on both; thorough runs every shard on both builds
        keep, n = [], {}
        for j in jobs:
            mn, fname, arg, build = j
            if mn in HEAVY and fname == "shard_graph":
                # the frontier-exhausting graph explorations are by far the longest shards: optimised checked build only in the quick
                # tier (their tree-mode siblings, which reach the same code, alternate between both checked builds)
                if build == "dbg":
                    continue
                keep.append(j)
                continue
            if fname in ("shard_many_calls", "shard_huge"):
                # 66000-call programs: optimised checked build only in the quick tier
                if build == "relchk":
                    keep.append(j)
                continue
            if mn in HEAVY or fname in HEAVY_SHARDS:
                k = (mn, fname, repr(arg))
                if k not in n:
                    n[k] = len(n)
                if (n[k] % 2 == 0) != (build == "dbg"):
                    continue
            keep.append(j)
        jobs = keep
    order = {"c09": 0, "c02": 1, "c07": 2, "c06": 3, "c04": 4}
    jobs.sort(key=lambda j: (order.get(j[0], 9), 0 if j[1] == "shard_graph" else 1))      # long shards first
    sh = [("shard_foreign", j) for j in jobs]
    for b in BUILDS:
        sh.append(("shard_counters", b))
        sh.append(("shard_misuse", (b, None)))
    # the counter-crossing programs also on the vector builds (the BLAKE2 vector compressions take the counter words as an operand)
    for b in ("avx", "native"):
        sh.append(("shard_counters", b))
    # vector code paths under checked arithmetic (+sse4.1 and target-cpu=native, each with overflow checks and debug assertions): the
    # multi-block SHA-256 / BLAKE2 programs of C16, the counter programs, and the SHA-256 / BLAKE2 one-shot shards of C01
    for b in VECCHK:
        sh.append(("shard_counters", b))
        for v in ("sha256", "sha224"):
            for pre in (0, 1, 63):
                sh.append(("shard_c16_component", ("shard_sha", (b, v, pre))))
        for which in ("b", "s"):
            sh.append(("shard_c16_component", ("shard_blake2", (b, which))))
        sh.append(("shard_c16_component", ("shard_spots", b)))
    from props import c01
    sh += [("shard_foreign", j) for j in multi.foreign_jobs(["c01"], "quick", VECCHK, select=lambda mn, f, a: f != "shard_huge" and c01._vec(f, a))]
    if tier == "thorough":
        sh.append(("shard_misuse", ("rel", "memcheck")))
    return sh


def shard_foreign(job, tier):
    return multi.run_foreign(job, "quick", PROPERTY_ID)


def _ck(build):
    core.BUILD_OVERRIDE = build
    try:
        return core.Checker(PROPERTY_ID)
    finally:
        core.BUILD_OVERRIDE = None


def counter_cases():
    return blake2_counter_cases() + cipher_counter_cases()


def blake2_counter_cases():
    cases = []
    # BLAKE2 byte counters: low word wraps, high word increments; high word wrap (2^64 for s, 2^128 for b) as well
    for which, B, w, kind, mx in (("s", 64, 32, "b2sdyn", 32), ("b", 128, 64, "b2bdyn", 64)):
        lowmax = 1 << w
        half = lowmax >> 1
        presets = [(lowmax - 2 * B, 0), (lowmax - B, 0), (lowmax - 1, 0), (lowmax - B - 1, 0), (lowmax - B, 1), (lowmax - B, lowmax - 1), (lowmax - 1, lowmax - 1), (0, lowmax - 1), (5, 7),
                   (half - B, 0), (half - 1, 0), (half, 0), (half + B, half), (3, half), (half - 2 * B, half - 1)]
        for (t0, t1) in presets:
            c0 = t0 | (t1 << w)
            for key in (b"", pat(6, 0, mx)):
                for n in (0, 1, B - 1, B, B + 1, 2 * B, 3 * B + 5):
                    for o in (mx, 20):
                        d = obs_of(hashes.blake2_py(which, pat(5, 3, n), o, key, c0))
                        new = "hnew s0 %s %d" % (kind, o) + ((" " + H(key)) if key else "")
                        cases.append(([new, "hsetctr s0 %d %d" % (t0, t1), "update_mut s0 %s" % (P(5, 3, n) if n else "h:"), "hclone s0 s1", "fin s0", "fin_reset s1"],
                                      ["-", "-", "-", "-", d, d], None))
    # a context whose counter words are both non-zero must come back completely fresh from every kind of reset
    for which, B, w, kind, mx in (("s", 64, 32, "b2sdyn 32", 32), ("b", 128, 64, "b2bdyn 64", 64), ("s", 64, 32, "b2s 256", 32), ("b", 128, 64, "b2b 512", 64)):
        lowmax = 1 << w
        msg2 = pat(6, 9, B + 7)
        k2 = pat(7, 1, 5)
        fresh = obs_of(hashes.blake2(which, msg2, mx, b""))
        fresh_k = obs_of(hashes.blake2(which, msg2, mx, k2))
        for (t0, t1) in ((lowmax - B, 0), (lowmax - 1, 3), (5, lowmax - 1), (0, 1)):
            for n in (0, 1, B, 2 * B + 1):
                pre = ["hnew s0 %s" % kind, "hsetctr s0 %d %d" % (t0, t1), "update_mut s0 %s" % (P(5, 3, n) if n else "h:")]
                e = ["-", "-", "-"]
                cases.append((pre + ["hreset s0", "update_mut s0 %s" % P(6, 9, B + 7), "fin s0"], e + ["-", "-", fresh], None))
                cases.append((pre + ["fin_reset s0", "update_mut s0 %s" % P(6, 9, B + 7), "fin s0"], e + [None, "-", fresh], None))
                cases.append((pre + ["hreset_key s0 %s" % H(k2), "update_mut s0 %s" % P(6, 9, B + 7), "fin s0"], e + ["-", "-", fresh_k], None))
                cases.append((pre + ["fin_reset_key s0 %s" % H(k2), "update_mut s0 %s" % P(6, 9, B + 7), "fin_reset s0", "update_mut s0 %s" % P(6, 9, B + 7), "fin s0"],
                              e + [None, "-", fresh_k, "-", fresh], None))
    # fixed-size contexts too (Context<BITS>)
    for which, B, w, kind, bits in (("s", 64, 32, "b2s", 256), ("b", 128, 64, "b2b", 512)):
        lowmax = 1 << w
        for (t0, t1) in ((lowmax - B, 0), (lowmax - 1, 0), (lowmax - 1, lowmax - 1)):
            c0 = t0 | (t1 << w)
            for n in (1, B, 2 * B + 1):
                d = obs_of(hashes.blake2_py(which, pat(5, 3, n), bits // 8, b"", c0))
                cases.append((["hnew s0 %s %d" % (kind, bits), "hsetctr s0 %d %d" % (t0, t1), "update s0 %s" % P(5, 3, n), "fin s0"], ["-", "-", "-", d], None))
    return cases


def cipher_counter_cases():
    cases = []
    # cipher block counters at their boundaries (hooks for the 64-bit ones, seek for the 32-bit ones)
    M32 = 0xFFFFFFFF
    for v, kl, nl, bits in (("chacha", 32, 12, 32), ("xchacha", 32, 24, 32), ("chachao", 32, 8, 64), ("salsa", 16, 8, 64), ("xsalsa", 32, 24, 64)):
        key, nonce = pat(6, 1, kl), pat(7, 2, nl)
        st = stream.Stream(v, 20, key, nonce)
        starts = [M32 - 1, M32] if bits == 32 else [M32 - 1, M32, (1 << 64) - 2, (1 << 64) - 1, (M32 << 32) | M32]
        for s0 in starts:
            for n in (1, 64, 65, 193):
                exp = obs_of(st.keystream(s0, 0, n))
                cases.append((["cnew s0 %s 20 %s %s" % (v, P(6, 1, kl), P(7, 2, nl)), ("seek s0 %d" if bits == 32 else "setctr64 s0 %d") % s0, "process s0 %s" % P(0, 0, n)],
                              ["-", "-", exp], None))
    return cases


def shard_c16_component(arg, tier):
    return multi.run_component("c16", arg[0], arg[1], tier, PROPERTY_ID)


def shard_counters(build, tier):
    ck = _ck(build)
    cs = counter_cases()
    ck.run(cs)
    ck.stats.states = len(cs)
    ck.stats.extra["transcripts"] = [("counters", build, ck.transcript.hexdigest())]
    return ck.stats


REFUSE = ("PANIC",)


def misuse_cases():
    """programs whose last step is documented-invalid: it must be refused (panic / error), never answered"""
    out = []

    def bad(ops, note):
        out.append((ops, [None] * (len(ops) - 1) + [REFUSE], {"note": note}))

    k32, k16, n12, n8, n24 = P(6, 0, 32), P(6, 0, 16), P(7, 0, 12), P(7, 0, 8), P(7, 0, 24)
    # ---- stream ciphers: key lengths, rounds, unequal buffers
    for v, nonce in (("chacha", n12), ("chachao", n8), ("salsa", n8)):
        for kl in (0, 1, 15, 17, 24, 31, 33, 64):
            bad(["cnew s0 %s 20 %s %s" % (v, P(6, 0, kl) if kl else "h:", nonce)], "%s key length %d" % (v, kl))
    for v, key, nonce in (("chacha", k32, n12), ("chachao", k32, n8), ("xchacha", k32, n24), ("salsa", k32, n8), ("xsalsa", k32, n24)):
        for r in (7, 10, 21):
            bad(["cnew s0 %s %d %s %s" % (v, r, key, nonce)], "%s rounds %d" % (v, r))
        for (i, o) in ((1, 0), (0, 1), (64, 63), (64, 65), (5, 500)):
            bad(["cnew s0 %s 20 %s %s" % (v, key, nonce), "process s0 %s %d" % (P(5, 0, i) if i else "h:", o)], "%s process in %d out %d" % (v, i, o))
    for r in (7, 10, 21):
        bad(["drgnew s0 %d %s" % (r, k32)], "Drg rounds %d" % r)
        bad(["actx_new s0 %d %s %s" % (r, k32, n12)], "AEAD Context rounds %d" % r)
        bad(["aead_new s0 %d %s %s h:" % (r, k32, n12)], "ChaChaPoly1305 rounds %d" % r)
    # ---- AEAD: key lengths, tag / output length mismatches, second use of a one-shot object
    for kl in (0, 15, 17, 31, 33):
        bad(["aead_new s0 20 %s %s h:" % (P(6, 0, kl) if kl else "h:", n12)], "AEAD key length %d" % kl)
        bad(["actx_new s0 20 %s %s" % (P(6, 0, kl) if kl else "h:", n12)], "AEAD context key length %d" % kl)
    new = "aead_new s0 20 %s %s %s" % (k32, n12, P(2, 0, 5))
    for (pl, ol) in ((4, 3), (4, 5), (0, 1), (64, 0)):
        bad([new, "aead_enc s0 %s %d" % (P(5, 0, pl) if pl else "h:", ol)], "encrypt in %d out %d" % (pl, ol))
        bad([new, "aead_dec s0 %s %s %d" % (P(5, 0, pl) if pl else "h:", P(1, 0, 16), ol)], "decrypt in %d out %d" % (pl, ol))
    for tl in (0, 15, 17, 32):
        bad([new, "aead_enc s0 %s 4 %d" % (P(5, 0, 4), tl)], "encrypt tag buffer %d" % tl)
        bad([new, "aead_dec s0 %s %s" % (P(5, 0, 4), P(1, 0, tl) if tl else "h:")], "decrypt tag length %d" % tl)
    bad([new, "aead_enc s0 %s" % P(5, 0, 4), "aead_enc s0 %s" % P(5, 0, 4)], "second encrypt on a one-shot object")
    bad([new, "aead_enc s0 %s" % P(5, 0, 4), "aead_dec s0 %s %s" % (P(5, 0, 4), P(1, 0, 16))], "decrypt after encrypt on a one-shot object")
    bad([new, "aead_dec s0 %s %s" % (P(5, 0, 4), P(1, 0, 16)), "aead_dec s0 %s %s" % (P(5, 0, 4), P(1, 0, 16))], "second decrypt on a one-shot object")
    inc = ["actx_new s0 20 %s %s" % (k32, n12), "actx_toenc s0"]
    for (i, o) in ((4, 3), (4, 5), (0, 1)):
        bad(inc + ["aenc s0 %s %d" % (P(5, 0, i) if i else "h:", o)], "incremental encrypt in %d out %d" % (i, o))
        bad(["actx_new s0 20 %s %s" % (k32, n12), "actx_todec s0", "adec s0 %s %d" % (P(5, 0, i) if i else "h:", o)], "incremental decrypt in %d out %d" % (i, o))
    # ---- BLAKE2 sizes
    for kind, mx in (("b2bdyn", 64), ("b2sdyn", 32)):
        for o in (0, mx + 1, 255, 1000):
            bad(["hnew s0 %s %d" % (kind, o)], "%s outlen %d" % (kind, o))
            bad(["hnew s0 %s %d %s" % (kind, o, P(6, 0, 4))], "%s keyed outlen %d" % (kind, o))
        for kl in (mx + 1, 2 * mx, 300):
            bad(["hnew s0 %s %d %s" % (kind, mx, P(6, 0, kl))], "%s key length %d" % (kind, kl))
            bad(["hnew s0 %s %d" % (kind, mx), "hreset_key s0 %s" % P(6, 0, kl)], "%s reset_with_key length %d" % (kind, kl))
            bad(["hnew s0 %s %d" % (kind, mx), "fin_reset_key_at s0 %s %d" % (P(6, 0, kl), mx)], "%s finalize_reset_with_key length %d" % (kind, kl))
        for fl in (0, mx - 1, mx + 1, 2 * mx):
            bad(["hnew s0 %s %d" % (kind, mx), "fin_at s0 %d" % fl], "%s finalize_at buffer %d" % (kind, fl))
            bad(["hnew s0 %s %d" % (kind, mx), "fin_reset_at s0 %d" % fl], "%s finalize_reset_at buffer %d" % (kind, fl))
            bad(["hnew s0 %s %d" % (kind, mx), "fin_reset_key_at s0 h: %d" % fl], "%s finalize_reset_with_key_at buffer %d" % (kind, fl))
    for kind, bads, mx in (("b2b", (0, 513, 520), 64), ("b2s", (0, 257, 264), 32)):
        for bits in bads:
            bad(["hnew s0 %s %d" % (kind, bits)], "%s BITS %d" % (kind, bits))
            bad(["hnew s0 %s %d %s" % (kind, bits, P(6, 0, 4))], "%s keyed BITS %d" % (kind, bits))
        bad(["hnew s0 %s 256 %s" % (kind, P(6, 0, mx + 1))], "%s key length %d" % (kind, mx + 1))
        bad(["hnew s0 %s 256 %s ctx" % (kind, P(6, 0, mx + 1))], "%s Context key length %d" % (kind, mx + 1))
        for fl in (0, 31, 33):
            bad(["hnew s0 %s 256" % kind, "fin_at s0 %d" % fl], "%s<256> finalize_at buffer %d" % (kind, fl))
    # every keyed entry point of every BLAKE2 context type, with every over-long key length class (max+1 .. beyond the block size)
    for fam, mx, B in (("b", 64, 128), ("s", 32, 64)):
        kinds = [("b2%sdyn %d" % (fam, mx), mx), ("b2%sdyn 20" % fam, 20), ("b2%s 256" % fam, 32), ("b2%s 224" % fam, 28), ("b2%s 8" % fam, 1)]
        if fam == "b":
            kinds += [("b2b 512", 64), ("b2b 384", 48)]
        for kind, o in kinds:
            for kl in (mx + 1, mx + 2, B - 1, B, B + 1, 2 * B):
                key = P(6, 0, kl)
                bad(["hnew s0 %s %s" % (kind, key)], "%s new_keyed key length %d" % (kind, kl))
                if "dyn" not in kind:
                    bad(["hnew s0 %s %s ctx" % (kind, key)], "%s Context::new_keyed key length %d" % (kind, kl))
                bad(["hnew s0 %s" % kind, "hreset_key s0 %s" % key], "%s reset_with_key length %d" % (kind, kl))
                bad(["hnew s0 %s" % kind, "update_mut s0 h:61", "fin_reset_key s0 %s" % key], "%s finalize_reset_with_key length %d" % (kind, kl))
                bad(["hnew s0 %s" % kind, "fin_reset_key_at s0 %s %d" % (key, o)], "%s finalize_reset_with_key_at length %d" % (kind, kl))
                bad(["hnew s0 %s %s" % (kind, P(6, 0, 4)), "hreset_key s0 %s" % key], "keyed %s reset_with_key length %d" % (kind, kl))
    for name, mx in (("blake2b", 64), ("blake2s", 32)):
        for kl in (mx + 1, 2 * mx, 2 * mx + 1):
            bad(["mnew s0 %s %d %s" % (name, mx, P(6, 0, 4)), "mb2reset_key s0 %s" % P(6, 0, kl)], "legacy %s mac reset_with_key %d" % (name, kl))
            bad(["dnew s0 %s %d" % (name, mx), "db2reset_key s0 %s" % P(6, 0, kl)], "legacy %s digest reset_with_key %d" % (name, kl))
            bad(["%s_static %d h:61 %s" % ("b2b" if name == "blake2b" else "b2s", mx, P(6, 0, kl))], "%s static key length %d" % (name, kl))
        for o in (0, mx + 1):
            bad(["dnew s0 %s %d" % (name, o)], "legacy %s outlen %d" % (name, o))
            bad(["mnew s0 %s %d %s" % (name, o, P(6, 0, 4))], "legacy keyed %s outlen %d" % (name, o))
            bad(["%s_static %d h:61 h:" % ("b2b" if name == "blake2b" else "b2s", o)], "%s static outlen %d" % (name, o))
        bad(["mnew s0 %s %d %s" % (name, mx, P(6, 0, mx + 1))], "legacy %s key length %d" % (name, mx + 1))
        bad(["dnew s0 %s %d" % (name, mx), "db2reset_key s0 %s" % P(6, 0, mx + 1)], "legacy %s reset_with_key %d" % (name, mx + 1))
    # ---- legacy result buffers, use after result
    for kind, D in (("sha1", 20), ("sha256", 32), ("sha512", 64), ("sha3_256", 32), ("keccak512", 64), ("ripemd160", 20), ("sha512_224", 28)):
        for bl in (0, D - 1, D + 1, 2 * D):
            bad(["dnew s0 %s" % kind, "dinput s0 h:61", "dresult s0 %d" % bl], "legacy %s result buffer %d" % (kind, bl))
        bad(["dnew s0 %s" % kind, "dresult s0", "dinput s0 h:61"], "legacy %s input after result" % kind)
        bad(["dnew s0 %s" % kind, "dresult s0", "dresult s0"], "legacy %s second result" % kind) if False else None
    for bl in (0, 31, 33):
        bad(["dnew s0 blake2b 32", "dresult s0 %d" % bl], "legacy blake2b result buffer %d" % bl)
        bad(["mnew s0 hmac sha256 h:6b", "mraw s0 %d" % bl], "hmac raw_result buffer %d" % bl)
        bad(["mnew s0 blake2s 32 h:6b", "mraw s0 %d" % bl], "blake2s mac raw_result buffer %d" % bl)
    for bl in (0, 1, 15):
        bad(["mnew s0 poly1305 %s" % k32, "mraw s0 %d" % bl], "poly1305 raw_result buffer %d" % bl)
    bad(["mnew s0 hmac sha256 h:6b", "mresult s0", "minput s0 h:61"], "hmac input after result")
    bad(["mnew s0 poly1305 %s" % k32, "minput s0 %s" % P(5, 0, 16), "mresult s0", "minput s0 h:61"], "poly1305 input after result (16-byte message)")
    bad(["mnew s0 poly1305 %s" % k32, "minput s0 %s" % P(5, 0, 5), "mresult s0", "minput s0 h:61"], "poly1305 input after result")
    bad(["mnew s0 blake2b 32 h:6b", "mresult s0", "minput s0 h:61"], "blake2b mac input after result")
    # ---- KDFs
    for kind, D in (("sha256", 32), ("sha1", 20), ("sha512", 64)):
        for bl in (0, D - 1, D + 1):
            bad(["hkdf_extract %s h:73 h:69 %d" % (kind, bl)], "hkdf_extract prk buffer %d" % bl)
        for Lx in (255 * D + 1, 256 * D, 1000 * D):
            bad(["hkdf_expand %s %s h: %d" % (kind, P(5, 0, D), Lx)], "hkdf_expand L %d" % Lx)
        bad(["pbkdf2 %s h:70 h:73 0 %d" % (kind, D)], "pbkdf2 c = 0")
    for (ln, r, p) in ((0, 1, 1), (1, 0, 1), (1, 1, 0), (16, 1, 1), (32, 2, 1), (64, 8, 1), (1, 1, 1 << 30), (1, 1 << 15, 1 << 15), (1, 1 << 30, 1)):
        bad(["scrypt_params %d %d %d" % (ln, r, p)], "scrypt params (%d,%d,%d)" % (ln, r, p))
    # r * p >= 2^30 must be refused for every power-of-two split and for products that wrap a 32-bit multiplication
    for a in range(0, 32):
        for b in range(0, 32):
            if a + b >= 30:
                bad(["scrypt_params 1 %d %d" % (1 << a, 1 << b)], "scrypt params r=2^%d p=2^%d" % (a, b))
    for (r, p) in ((2, 0x80000000), (3, 0x55555556), (0x10000, 0x10000), (0x10001, 0xffff), (5, 0x33333334), (0xffffffff, 0xffffffff), (0xffffffff, 2), (2, 0xffffffff)):
        bad(["scrypt_params 1 %d %d" % (r, p)], "scrypt params r=%d p=%d" % (r, p))
    for ln in range(16, 70):
        bad(["scrypt_params %d 1 1" % ln], "scrypt params log_n=%d r=1" % ln)
    bad(["scrypt h:70 h:73 1 1 1 0"], "scrypt empty output")
    out.append((["argon2_setter parallelism 0"], [{"prefix": "ERR:"}], {"note": "argon2 parallelism 0"}))
    out.append((["argon2_setter parallelism %d" % (1 << 24)], [{"prefix": "ERR:"}], {"note": "argon2 parallelism 2^24"}))
    out.append((["argon2_setter iterations 0"], [{"prefix": "ERR:"}], {"note": "argon2 iterations 0"}))
    out.append((["argon2_setter version 18"], [{"prefix": "ERR:"}], {"note": "argon2 version 0x12"}))
    # ---- constant-time slice helpers with unequal lengths
    bad(["ct_slice8 h:00 h:0000"], "ct_eq on slices of unequal length")
    bad(["ct_slice64 h:0000000000000000 h:"], "ct_eq on u64 slices of unequal length")
    return [c for c in out if c is not None]


def shard_misuse(arg, tier):
    build, mode = arg
    cs = misuse_cases()
    if mode == "memcheck":
        return run_memcheck(cs)
    ck = _ck(build)
    ck.run(cs)
    ck.stats.states = len(cs)
    ck.stats.extra["misuse_programs"] = len(cs)
    ck.stats.extra["transcripts"] = [("misuse", build, ck.transcript.hexdigest())]
    return ck.stats


def run_memcheck(cs):
    """the release executor under valgrind memcheck: an out-of-bounds access by unchecked pointer code is an error even if nothing panics"""
    import subprocess
    from mc import builds
    progs = [";".join(c[0]) for c in cs]
    inp = "".join("%d %s\n" % (i, p) for i, p in enumerate(progs)).encode()
    p = subprocess.run(["valgrind", "-q", "--error-exitcode=97", "--errors-for-leak-kinds=none", builds.binary_path("rel")], input=inp, capture_output=True)
    st = core.Stats()
    st.evaluations = len(progs)
    st.transitions = sum(len(c[0]) for c in cs)
    st.traces = len(progs)
    st.states = len(progs)
    st.extra["memcheck_programs"] = len(progs)
    lines = p.stdout.decode().splitlines()
    if p.returncode == 97 or b"Invalid read" in p.stderr or b"Invalid write" in p.stderr:
        st.violation_count += 1
        st.violations.append({"property": PROPERTY_ID, "build": "rel+memcheck", "program": [], "step": 0, "expected": "no memcheck error on the misuse corpus",
                              "observed": "memcheck errors", "meta": {}, "note": p.stderr.decode()[-3000:]})
    elif p.returncode != 0 or len(lines) != len(progs):
        raise core.MachineryError("valgrind run failed: rc=%d lines=%d/%d %s" % (p.returncode, len(lines), len(progs), p.stderr.decode()[-500:]))
    return st


def post(total, tier):
    multi.compare_transcripts(total, PROPERTY_ID)
