"""C12 - X25519 equals the RFC 7748 function for every scalar and every u-coordinate."""
from mc import core
from mc.patterns import pat, P, H, obs_of
from models import curve, selfcheck

PROPERTY_ID = "C12"
RULE = ("one-step programs: full product scalars {00.., FF.., every single-bit scalar (thorough: also every two-adjacent-bit and every all-ones-but-one-bit scalar), clamp-edge patterns, 4 patterns} x u {0,1,9,p-1,p,p+1,2^255-1,2^256-1, every small u 2..32 (thorough 2..255) and p-u, "
        "small-order u values and their non-canonical twins, each also with bit 255 set, 4 patterns} through curve25519 and x25519::dh; fixed-base function == "
        "general function at u=9 for every scalar; both parties of an exchange agree for all pairs of pattern scalars; RFC 7748 iteration 1 and 1000; "
        "oracle = python RFC 7748 section 5; distinct = program text"
        " Also: every small u 2..32 (thorough 2..255) and p-u; the conversions of the three x25519 wrapper types; component shards: C15's limb-field and result-steering field programs incl. the ladder's multiplication by 121666 (hook); the corpus again on the checked-arithmetic, force-32bits and native builds.")
ASSUMPTIONS = ["python RFC 7748 ladder on integers (validated on the RFC vectors and OpenSSL cross vectors)", "scalars and u outside the enumerated set are not covered"]

PP = curve.P


def builds_needed(tier):
    return ["rel"]


# Own corpus re-run on other builds of the crate (mc/core.py: extra builds). Every observation is compared with the same model.
def extra_builds(tier):
    return [("relchk", None), ("fe32", None), ("native", None)]



def bounds(tier):
    return {"single_bit_scalars": 256, "two_adjacent_bit_and_single_zero_bit_scalars": 511 if tier == "thorough" else 0, "u_values": len(us(tier)),
            "components": "C15 limb-field / result-steering field programs incl. mul_small (hook)"}


def validate_models(tier):
    selfcheck.check_curve()


def le(x):
    return (x % (1 << 256)).to_bytes(32, "little")


def scalars(tier):
    out = [bytes(32), b"\xff" * 32]
    out += [le(1 << b) for b in range(256)]
    if tier == "thorough":
        out += [le(3 << b) for b in range(255)] + [le(((1 << 256) - 1) ^ (1 << b)) for b in range(256)]
    out += [le(7), le(248), le((1 << 254) - 8), le((1 << 255) - 1), le(1 << 254), le((1 << 254) | 248), le(127 << 248)]
    out += [pat(k, 0, 32) for k in (5, 6, 7, 2)]
    return out


def us(tier="quick"):
    so = [0, 1, 325606250916557431795983626356110631294008115727848805560023387167927233504,
          39382357235489614581723060781553021112529911719440698176882885853963445705823, PP - 1, PP, PP + 1]
    vals = [0, 1, 9, PP - 1, PP, PP + 1, (1 << 255) - 1, (1 << 256) - 1] + so
    vals += [v + PP for v in so if v + PP < (1 << 255)]           # non-canonical twins
    out = []
    for v in vals:
        for top in (0, 1):
            b = le((v & ((1 << 255) - 1)) | (top << 255))
            if b not in out:
                out.append(b)
    out += [pat(k, 7, 32) for k in (5, 6, 7, 2)]
    # small u (the first ladder steps then work on tiny field elements) and their negatives
    small = range(2, 256) if tier == "thorough" else range(2, 33)
    for v in small:
        for b in (le(v), le(PP - v)):
            if b not in out:
                out.append(b)
    return out


def near_special_us():
    """the encodings of 9, 0 and 1 with every single other bit flipped (a shortcut keyed on 'looks like the base point' must test all 32 bytes)"""
    out = []
    for v in (9, 0, 1):
        for i in range(256):
            b = le(v ^ (1 << i))
            if b not in out:
                out.append(b)
    return out


def cases(tier, part=None, nparts=1):
    """build-independent case list (also used by C17 and C20); part/nparts select every nparts-th scalar"""
    out = []
    U = us(tier)
    for j, s in enumerate(scalars(tier)):
        if part is not None and j % nparts != part:
            continue
        for u in U:
            r = obs_of(curve.x25519(s, u))
            out.append((["curve25519 %s %s" % (H(s), H(u)), "x25519_dh %s %s" % (H(s), H(u))], [r, r], None))
        b = obs_of(curve.x25519(s, curve.BASE_U))
        out.append((["curve25519_base %s" % H(s), "x25519_base %s" % H(s), "curve25519 %s %s" % (H(s), H(curve.BASE_U))], [b, b, b], None))
    if part in (None, 0):
        out += cases_tail()
    # near-special u values under three scalars
    NS = near_special_us()
    for j, u in enumerate(NS):
        if part is not None and j % nparts != part:
            continue
        for s in (le(1 << 254), pat(5, 0, 32), b"\xff" * 32):
            r = obs_of(curve.x25519(s, u))
            out.append((["curve25519 %s %s" % (H(s), H(u)), "x25519_dh %s %s" % (H(s), H(u))], [r, r], None))
    return out


NSH = 16


def _own_shards(tier):
    return [("shard", i) for i in range(NSH)]


def shard(i, tier):
    ck = core.Checker(PROPERTY_ID)
    cs = cases(tier, i, NSH)
    ck.run(cs)
    ck.stats.states = len(cs)
    return ck.stats


def cases_tail():
    out = []
    lcg = [pat(k, 0, 32) for k in (5, 6, 7, 2)]
    for a in lcg:
        for b in lcg:
            pa, pb = curve.x25519(a, curve.BASE_U), curve.x25519(b, curve.BASE_U)
            sh = curve.x25519(a, pb)
            assert sh == curve.x25519(b, pa)
            out.append((["x25519_dh %s %s" % (H(a), H(pb)), "x25519_dh %s %s" % (H(b), H(pa))], [obs_of(sh), obs_of(sh)], None))
    out.append((["x25519_iter %s %s 1" % (H(curve.BASE_U), H(curve.BASE_U))], ["422c8e7a6227d7bca1350b3e2bb7279f7897b87bb6854b783c60e80311ae3079"], None))
    out.append((["x25519_iter %s %s 1000" % (H(curve.BASE_U), H(curve.BASE_U))], ["684cf59ba83309552800ef566f2f4d3c1c3887c49360e3875f2eb94d99532c51"], None))
    for b in (bytes(32), b"\xff" * 32, pat(5, 0, 32), pat(6, 1, 32)):
        h = b.hex()
        out.append((["x25519_views %s" % H(b)], ["%s.%s.%s.TF.%s" % (h, h, h, h)], None))
    for n, e in ((0, "FFF"), (31, "FFF"), (32, "TTT"), (33, "FFF")):
        out.append((["x25519_tryfrom %s" % (P(5, 0, n) if n else "h:")], [e + (".%s.%s.%s" % ((pat(5, 0, 32).hex(),) * 3) if n == 32 else "")], None))
    # the wrappers built from slices (TryFrom<&[u8]>) hold the bytes unaltered and drive the same function
    for b in (bytes(32), b"\xff" * 32, pat(5, 0, 32), pat(6, 1, 32), curve.BASE_U, (1).to_bytes(32, "little")):
        out.append((["x25519_tryfrom %s" % H(b)], ["TTT.%s.%s.%s" % ((b.hex(),) * 3)], None))
        for k in (pat(5, 3, 32), b"\xff" * 32, bytes(32)):
            out.append((["x25519_dh_try %s %s" % (H(k), H(b))], ["%s.%s" % (curve.x25519(k, b).hex(), curve.x25519(k, curve.BASE_U).hex())], None))
    return out


def shards(tier):
    # the ladder is a fixed sequence of field operations (incl. the crate-private multiplication by 121666, reached through a hook): the limb-field and result-steering programs of C15 drive their rare carry paths directly, as a component of this property
    from props import c15
    comp = []
    for fname in ['shard_limbs']:
        comp += [("shard_c15_component", (f, a)) for (f, a) in c15.shards(tier) if f == fname]
    return _own_shards(tier) + comp


def shard_c15_component(arg, tier):
    from mc import multi
    return multi.run_component("c15", arg[0], arg[1], tier, PROPERTY_ID)
