"""C15 - field, scalar and group arithmetic match GF(2^255-19), Z/L and the curve."""
import itertools

from mc import core
from mc.patterns import pat, P, H, obs_of
from models import curve, selfcheck

PROPERTY_ID = "C15"
RULE = ("programs for a field stack machine (push 32-byte encoding, add, sub, neg, mul, sq, sqn k, sq2, inv, pow25523; observations to_bytes, is_negative, "
        "is_nonzero, ==) enumerated from the grammar M ::= leaf | mul(A,A) | sq(A) | sqn(A,k) | sq2(A) | inv(A) | pow25523(A), A ::= M | add(M,M) | sub(M,M) | neg(M) "
        "(the documented operand discipline) to nesting depth 2 (thorough 3) over boundary leaves (0,1,2,19,p-1,p,p+1,2^255-20,2^255-1,2^256-1,2^254,sqrt(-1),d,2d, "
        "limb-edge patterns, patterns); limb-field products: elements assembled from the 51-bit (5 limbs x {0,1,max}, thorough 5 values) and 25.5-bit (10 limbs x {0,max}) limb fields in every combination, "
        "all pairs multiplied bare and behind one add/sub/neg, every element squared / inverted / raised; post-image steering: every limb-field element as the *result* of mul, square, square_and_double, "
        "sub/add and of the small-constant multiplications by 121666 and 9 (hook), operands obtained by inverting the operation in the model, each result also consumed by a following sub/neg/add/mul; scalar wide reduction on 0,1,L-1,L,L+1,2L,kL-1,kL,kL+1, every 2^i (i<512), 2^512-1, and a sweep of 30000 (thorough 200000) pattern windows; (a*b+c) mod L (hook) on all pairs of limb-field scalars (56-bit and 21-bit limbs) x boundary c; radix-16 and sliding-window digit recodings (hook) on carry-chain digit strings: digits in range and summing to the scalar; canonical decoder on values "
        "around L and every byte of L +-1; group stack machine: s*B for every single-nibble scalar and boundary scalars, a*A+b*B for all pairs of boundary scalars "
        "(incl. every odd 1..15) x 14 points, double/add/sub for all pairs of the point set, encode/decode of all points, non-canonical encodings and non-points; "
        "oracle = python integers / RFC 8032 point arithmetic; distinct = program text")
ASSUMPTIONS = ["python integer arithmetic modulo p and L", "scalar-multiplication operands >= 2^255 are outside the documented range and not generated",
               "field programs respect the documented discipline (at most one unreduced add/sub feeding a multiplication)"]

PP, L = curve.P, curve.L


def builds_needed(tier):
    return ["rel"]


# Own corpus re-run on other builds of the crate (mc/core.py: extra builds). Every observation is compared with the same model.
def extra_builds(tier):
    return [("relchk", None), ("fe32", None), ("native", None)]



def bounds(tier):
    return {"field_depth": 3 if tier == "thorough" else 2, "leaves": len(leaves()), "single_nibble_scalars": 63 * 15 + 7,
            "dsm_scalars": len(dsm_scalars()), "points": 14,
            "limb_field_elements": {"radix51": len(limb_elements(51, tier)), "radix25.5": len(limb_elements(25, tier))}, "steering_targets": "every limb-field element as the result of mul / sq / sq2 / mul_small / add / sub",
            "lazy_sums": len(lazy_sum_cases()), "scalar_limb_elements": {"radix56": 243, "radix21": 4096}, "digit_scalars": len(digit_scalars())}


def validate_models(tier):
    selfcheck.check_curve()


def le(x):
    return (x % (1 << 256)).to_bytes(32, "little")


def leaves():
    d = curve.D
    vals = [0, 1, 2, 19, PP - 1, PP, PP + 1, (1 << 255) - 20, (1 << 255) - 1, (1 << 256) - 1, 1 << 254, curve.SQRTM1, d, 2 * d % PP]
    # limb edges of the 51-bit and of the 25.5-bit representations
    for i in (51, 102, 153, 204):
        vals += [(1 << i) - 1, 1 << i]
    for i in (26, 77, 128, 179, 230):
        vals += [(1 << i) - 1, 1 << i]
    vals += [(1 << 255) - (1 << 51), ((1 << 255) - 1) ^ ((1 << 204) - 1)]
    out = [le(v) for v in vals]
    out += [pat(k, 0, 32) for k in (5, 6, 7)]
    res = []
    for b in out:
        if b not in res:
            res.append(b)
    return res


def fval(b):
    return (int.from_bytes(b, "little") & ((1 << 255) - 1)) % PP


# ------------------------------------------------------------------ field expression terms
# a term is (tokens, value, cls) with cls "M" (reduced) or "A" (one pending add/sub/neg)
def leaf_terms(ls):
    return [([b.hex()], fval(b), "M") for b in ls]


def a_forms(ms):
    """A ::= M | add(M,M) | sub(M,M) | neg(M)"""
    out = list(ms)
    for (t1, v1, _), (t2, v2, _) in itertools.product(ms, ms):
        out.append((t1 + t2 + ["add"], (v1 + v2) % PP, "A"))
        out.append((t1 + t2 + ["sub"], (v1 - v2) % PP, "A"))
    for (t1, v1, _) in ms:
        out.append((t1 + ["neg"], (-v1) % PP, "A"))
    return out


def unary_ms(a):
    t, v, _ = a
    out = [(t + ["sq"], v * v % PP, "M"), (t + ["sq2"], 2 * v * v % PP, "M"),
           (t + ["inv"], pow(v, PP - 2, PP), "M"), (t + ["pow25523"], pow(v, (PP - 5) // 8, PP), "M")]
    for k in (0, 1, 2, 5):
        out.append((t + ["sqn:%d" % k], pow(v, 1 << k, PP), "M"))
    return out


def mul_m(a, b):
    return (a[0] + b[0] + ["mul"], a[1] * b[1] % PP, "M")


def observe(term):
    t, v, _ = term
    enc = v.to_bytes(32, "little").hex()
    exp = "%s.%s.%s" % (enc, "T" if v & 1 else "F", "T" if v else "F")
    return (["fe " + " ".join(t + ["bytes", "isneg", "isnz"])], [exp], None)


def field_cases_level1(ls_full, ls_core):
    """depth 1: one M operator applied to A-forms of leaves"""
    out = []
    A_full = a_forms(leaf_terms(ls_full))
    for a in A_full:
        out.append(observe(a))
        for m in unary_ms(a):
            out.append(observe(m))
    lf = leaf_terms(ls_full)
    for a, b in itertools.product(lf, lf):
        out.append(observe(mul_m(a, b)))
    A_core = a_forms(leaf_terms(ls_core))
    for a, b in itertools.product(A_core, A_core):
        out.append(observe(mul_m(a, b)))
    return out


def m1_terms(ls):
    lf = leaf_terms(ls)
    out = []
    for a, b in itertools.product(lf, lf):
        out.append(mul_m(a, b))
    for a in lf:
        t, v, _ = a
        out += [(t + ["sq"], v * v % PP, "M"), (t + ["sq2"], 2 * v * v % PP, "M"), (t + ["inv"], pow(v, PP - 2, PP), "M")]
    return out


def field_cases_level2(ls_core2):
    """depth 2: M operators applied to A-forms built from depth-1 terms and leaves"""
    out = []
    base = leaf_terms(ls_core2) + m1_terms(ls_core2)
    A2 = a_forms(base)
    lf = leaf_terms(ls_core2)
    for a in A2:
        for m in unary_ms(a):
            out.append(observe(m))
        for b in lf:
            out.append(observe(mul_m(a, b)))
            out.append(observe(mul_m(b, a)))
    return out


def field_cases_level3(ls_core3):
    out = []
    lf = leaf_terms(ls_core3)
    m1 = m1_terms(ls_core3)
    base1 = lf + m1
    m2 = []
    for a in a_forms(base1):
        m2.append((a[0] + ["sq"], a[1] * a[1] % PP, "M"))
        for b in lf:
            m2.append(mul_m(a, b))
    A3 = a_forms(lf[:2] + m2[::(max(1, len(m2) // 120))])
    for a in A3:
        for m in unary_ms(a)[:4]:
            out.append(observe(m))
        out.append(observe(mul_m(a, lf[-1])))
    return out


def eq_cases(ls):
    """== on differently represented equal / unequal elements"""
    out = []
    lf = leaf_terms(ls)
    for (t1, v1, _), (t2, v2, _) in itertools.product(lf, lf):
        s = (v1 + v2) % PP
        canon = [s.to_bytes(32, "little").hex()]
        out.append((["fe " + " ".join(t1 + t2 + ["add"] + canon + ["eq"])], ["T"], None))
        out.append((["fe " + " ".join(t1 + t2 + ["sub"] + canon + ["eq"])], ["T" if (v1 - v2) % PP == s else "F"], None))
        out.append((["fe " + " ".join(t1 + t2 + ["mul"] + [(v1 * v2 % PP).to_bytes(32, "little").hex()] + ["eq"])], ["T"], None))
        out.append((["fe " + " ".join(t1 + t2 + ["eq"])], ["T" if v1 == v2 else "F"], None))
        out.append((["fe " + " ".join(t1 + t2 + ["ne"])], ["T" if v1 != v2 else "F"], None))
        out.append((["fe " + " ".join(t1 + t2 + ["add"] + canon + ["ne"])], ["F"], None))
        # the by-value operator impls (they exist only in the 32-bit backend; the tokens fall back to the by-reference ones elsewhere)
        for op, v in (("addv", v1 + v2), ("subv", v1 - v2), ("mulv", v1 * v2)):
            out.append((["fe " + " ".join(t1 + t2 + [op, "bytes"])], [(v % PP).to_bytes(32, "little").hex()], None))
        out.append((["fe " + " ".join(t1 + t2 + ["addv"] + t1 + t2 + ["subv", "mulv", "bytes"])], [((v1 + v2) * (v1 - v2) % PP).to_bytes(32, "little").hex()], None))
    for (t1, v1, _) in lf:
        out.append((["fe " + " ".join(t1 + t1 + ["sub", "zero", "eq"])], ["T"], None))
        out.append((["fe " + " ".join(t1 + ["neg"] + [((-v1) % PP).to_bytes(32, "little").hex(), "eq"])], ["T"], None))
        out.append((["fe " + " ".join(t1 + ["sqn:0"] + t1 + ["eq"])], ["T"], None))
    # elements whose canonical encodings differ by the same mask in two or four 64-bit words (a folded comparison would call them equal)
    for base in (0, 5, int.from_bytes(pat(5, 0, 31), "little")):
        for mask in (1, 0xff, 0x0101010101010101, (1 << 62)):
            for words in ((0, 1), (0, 2), (1, 3), (0, 3), (0, 1, 2, 3)):
                o = base
                for w in words:
                    o ^= mask << (64 * w)
                if o % PP == base % PP or o >= (1 << 255) - 19 or base >= PP:
                    continue
                out.append((["fe %s %s eq" % (le(base).hex(), le(o).hex())], ["F"], None))
                out.append((["fe %s %s sub isnz" % (le(base).hex(), le(o).hex())], ["T"], None))
    out.append((["sc_consts"], ["%s.%s.TF" % (le(0).hex(), le(1).hex())], None))
    for name, v in (("zero", 0), ("one", 1), ("sqrtm1", curve.SQRTM1), ("d", curve.D), ("d2", 2 * curve.D % PP)):
        out.append((["fe %s bytes" % name], [v.to_bytes(32, "little").hex()], None))
    return out


# ------------------------------------------------------------------ limb-field products
def limb_elements(radix, tier):
    """32-byte encodings assembled from the limb fields of one backend (radix 51: five 51-bit limbs; radix 25.5: ten limbs of 26/25
    bits), every field drawn from a boundary set, in every combination - the operands next to every carry of that representation"""
    if radix == 51:
        bounds_ = [0, 51, 102, 153, 204, 255]
        vals = (lambda w: (0, 1, (1 << w) - 1)) if tier != "thorough" else (lambda w: (0, 1, 1 << (w - 1), (1 << w) - 2, (1 << w) - 1))
    else:
        bounds_ = [0, 26, 51, 77, 102, 128, 153, 179, 204, 230, 255]
        vals = (lambda w: (0, (1 << w) - 1))
    fields = []
    for lo, hi in zip(bounds_, bounds_[1:]):
        fields.append([v << lo for v in vals(hi - lo)])
    out = []
    for combo in itertools.product(*fields):
        out.append(sum(combo))
    # limb 0 next to the modulus: 2^51-19, 2^51-20, 2^26-19 in the lowest field with all higher fields saturated
    top = (1 << 255) - (1 << (51 if radix == 51 else 26))
    w0 = 51 if radix == 51 else 26
    out += [top + (1 << w0) - 19, top + (1 << w0) - 20, top + (1 << w0) - 18]
    return out


def limb_cases(tier, part, nparts):
    """products, squares and inversions of limb-field elements, bare and behind one unreduced add/sub/neg (the documented operand
    discipline), so that every partial product is driven to its largest and smallest magnitude in every limb position"""
    out = []
    e51 = limb_elements(51, tier)
    e25 = limb_elements(25, tier)
    n = 0

    def emit(tokens, v):
        nonlocal n
        n += 1
        if n % nparts == part:
            out.append(observe((tokens, v % PP, "M")))

    def tok(x):
        return [le(x).hex()]

    for x in e51 + e25:
        v = x % PP
        emit(tok(x) + ["sq"], v * v)
        emit(tok(x) + ["sq2"], 2 * v * v)
        emit(tok(x) + tok(x) + ["add", "sq"], 4 * v * v)
        emit(tok(x) + ["neg", "sq"], v * v)
        emit(tok(x) + ["inv"], pow(v, PP - 2, PP))
        emit(tok(x) + ["pow25523"], pow(v, (PP - 5) // 8, PP))
        emit(tok(x) + ["sqn:5"], pow(v, 32, PP))
        emit(tok(x) + tok(x) + ["add"], 2 * v)
        emit(tok(x) + ["neg"], -v)
    if tier == "thorough":
        q51 = limb_elements(51, "quick")
        pairs = ((e51, q51 + e51[::13]), (e25, e25[::4] + e25[-3:]))
    else:
        pairs = ((e51, e51), (e25, e25[::31] + e25[-3:]))
    for (A, Bset) in pairs:
        for x in A:
            vx = x % PP
            tx = le(x).hex()
            for y in Bset:
                n += 1
                if n % nparts != part:
                    continue
                vy = y % PP
                ty = le(y).hex()
                out.append(observe(([tx, ty, "mul"], vx * vy % PP, "M")))
                out.append(observe(([tx, tx, "add", ty, ty, "add", "mul"], 4 * vx * vy % PP, "M")))
                out.append(observe(([tx, "neg", ty, tx, "sub", "mul"], (-vx) * (vy - vx) % PP, "M")))
                out.append(observe(([tx, ty, "sub"], (vx - vy) % PP, "M")))
    return out


def sqrt_mod(v):
    """a square root of v modulo p, or None"""
    v %= PP
    r = pow(v, (PP + 3) // 8, PP)
    if r * r % PP != v:
        r = r * curve.SQRTM1 % PP
    return r if r * r % PP == v else None


def lazy_sum_cases():
    """to_bytes / is_negative / is_nonzero / == of a *lazily* added or subtracted pair whose integer value (before any reduction) sits
    within 40 of 0, of +-p, of +-2^255 and of 2p: the quotient estimate of the final reduction is then decided by the last few units"""
    out = []
    xs = [1 << 254, (1 << 254) + (1 << 200) + 12345, int.from_bytes(pat(5, 0, 32), "little") & ((1 << 254) - 1), 19, (1 << 255) - 20]
    targets = []
    for c in (0, PP, 1 << 255, 2 * PP, (1 << 255) + PP):
        targets += [c + d for d in range(-40, 41)]
    for T in targets:
        for x in xs:
            y = T - x
            if 0 <= y < (1 << 255) and 0 <= x < (1 << 255):
                v = T % PP
                out.append((["fe %s %s add bytes isneg isnz" % (le(x).hex(), le(y).hex())], ["%s.%s.%s" % (le(v).hex(), "T" if v & 1 else "F", "T" if v else "F")], None))
                out.append((["fe %s %s add %s eq" % (le(x).hex(), le(y).hex(), le(v).hex())], ["T"], None))
    # both operands just below 2^254 (the 32-bit backend's decoder keeps such values as plain non-negative limb integers, larger ones are
    # wrapped by -p): the lazy sum is the integer 2^255 - (a + b), on either side of p; and the mirrored negative sums
    for a in range(1, 22):
        for b_ in range(1, 26):
            x, y = (1 << 254) - a, (1 << 254) - b_
            v = (x + y) % PP
            enc = "%s.%s.%s" % (le(v).hex(), "T" if v & 1 else "F", "T" if v else "F")
            out.append((["fe %s %s add bytes isneg isnz" % (le(x).hex(), le(y).hex())], [enc], None))
            out.append((["fe %s %s add %s eq" % (le(x).hex(), le(y).hex(), le(v).hex())], ["T"], None))
            out.append((["fe %s %s add one mul bytes" % (le(x).hex(), le(y).hex())], [le(v).hex()], None))
            w = (-(x + y)) % PP
            encw = "%s.%s.%s" % (le(w).hex(), "T" if w & 1 else "F", "T" if w else "F")
            out.append((["fe %s neg %s neg add bytes isneg isnz" % (le(x).hex(), le(y).hex())], [encw], None))
            out.append((["fe %s neg %s sub bytes isneg isnz" % (le(x).hex(), le(y).hex())], [encw], None))
    # differences: x - y = T for T around 0, -p, -2^255 and +p (y, x below 2^255)
    for c in (0, -PP, -(1 << 255) + 1, PP):
        for d in range(-40, 41):
            T = c + d
            for x in (xs if T >= 0 else [0, 5, 1 << 200]):
                y = x - T
                if 0 <= y < (1 << 255) and 0 <= x < (1 << 255):
                    v = T % PP
                    out.append((["fe %s %s sub bytes isneg isnz" % (le(x).hex(), le(y).hex())], ["%s.%s.%s" % (le(v).hex(), "T" if v & 1 else "F", "T" if v else "F")], None))
    return out


def steer_cases(tier, part, nparts):
    """post-image steering: the *results* are the limb-field elements (so the final carry folds of every operation are driven with
    limb 0 next to 0 and next to its maximum while the top limb overflows); operands are obtained by inverting the operation in the
    model: b = T/a for mul, y = sqrt(T) for square / square_and_double, x = T/k for the small-constant multiplications (hook), each
    also consumed by the following sub / neg / add as the ladders and the group formulas do"""
    out = []
    targets = limb_elements(51, "quick") + limb_elements(25, "quick")
    if tier == "thorough":
        targets = limb_elements(51, "thorough") + limb_elements(25, "quick")
    pats = [int.from_bytes(pat(k, 0, 32), "little") & ((1 << 255) - 1) for k in (5, 6)]
    i121666 = pow(121666, PP - 2, PP)
    i9 = pow(9, PP - 2, PP)
    n = 0
    for T in targets:
        n += 1
        if n % nparts != part:
            continue
        t = T % PP

        def emit(tokens, v):
            out.append(observe((tokens, v % PP, "M")))

        def h(x):
            return le(x % PP).hex()

        # small-constant multiplication (the X25519 ladders): bare, and fed by a subtraction as e = aa - bb is
        for k, ik, op in ((121666, i121666, "ms121666"), (9, i9, "ms9")):
            x = t * ik % PP
            emit([h(x), op], t)
            for r in pats:
                emit([h(x + r), h(r), "sub", op], t)
                emit([h(x - r), h(r), "add", op], t)
                emit([h(r), h(t - r * k), "swap", op, "add"], t)            # t3 = k*e ; bb + t3
        for a in pats:
            b = t * pow(a, PP - 2, PP) % PP
            emit([h(a), h(b), "mul"], t)
            emit([h(b), h(a), "mul"], t)
            emit([h(a - 5), h(5), "add", h(b), "mul"], t)
            emit([h(a), h(b), "mul", "neg"], -t)
            emit([h(1), h(a), h(b), "mul", "sub"], 1 - t)
            emit([h(a), h(b), "mul", "dup", "add"], 2 * t)
            emit([h(a), h(b), "mul", "sq"], t * t)
        y = sqrt_mod(t)
        if y is not None:
            for yy in (y, PP - y):
                emit([h(yy), "sq"], t)
                emit([h(yy), "sq2"], 2 * t)
                emit([h(yy), "sq2", "neg"], -2 * t)
                emit([h(yy), "sq", "neg"], -t)
                for x in (0, 1, 75, 1 << 51):
                    emit([h(x), h(yy), "sq2", "sub"], x - 2 * t)
                    emit([h(x), h(yy), "sq", "sub"], x - t)
                emit([h(yy), "sq2", h(3), "mul"], 6 * t)
                emit([h(yy), "sqn:1"], t)
        y2 = sqrt_mod(t * pow(2, PP - 2, PP))
        if y2 is not None:
            emit([h(y2), "sq2"], t)
            emit([h(0), h(y2), "sq2", "sub"], -t)
            emit([h(y2), "sq2", "neg"], -t)
        iv = pow(t, PP - 2, PP)
        emit([h(iv), "inv"], t if t else 0)
        for r in pats:
            emit([h(t + r), h(r), "sub"], t)
            emit([h(t - r), h(r), "add"], t)
            emit([h(-t), "neg"], t)
    return out


NLIMBSH = 16


# ------------------------------------------------------------------ scalars
def scalar_cases(tier):
    out = []
    wide = [0, 1, L - 1, L, L + 1, 2 * L, 1 << 252, (1 << 256) - 1, 1 << 256, (1 << 512) - 1]
    for k in (1 << 64, 1 << 128, 1 << 252, ((1 << 512) - 1) // L):
        wide += [k * L - 1, k * L, k * L + 1]
    wide += [1 << i for i in range(512)]
    wide += [(1 << i) - 1 for i in range(1, 512, 7)]
    wide = [w for w in wide if 0 <= w < (1 << 512)]
    for w in wide:
        out.append((["sc_reduce %s" % H(w.to_bytes(64, "little"))], [(w % L).to_bytes(32, "little").hex()], None))
    for k in (5, 6, 7, 2, 1):
        for off in (0, 64):
            b = pat(k, off, 64)
            out.append((["sc_reduce %s" % H(b)], [(int.from_bytes(b, "little") % L).to_bytes(32, "little").hex()], None))
    # value-dependent paths of the Barrett reduction fire with probability ~2^-12 per input: sweep many pattern windows
    nsweep = 200000 if tier == "thorough" else 30000
    for i in range(nsweep):
        b = pat(5 + (i % 3), 64 * (i // 3) % 65000 + (i % 61), 64)
        out.append((["sc_reduce %s" % H(b)], [(int.from_bytes(b, "little") % L).to_bytes(32, "little").hex()], None))
    # result steering: x = r + k*L with the remainder r assembled from limb fields of either backend (every combination of field
    # boundary values) and quotients k of every size - the final carry passes then end on limbs that are 0 / saturated
    kmax = ((1 << 512) - 1) // L
    ks = [0, 1, 2, 3, 1 << 64, (1 << 128) - 1, 1 << 200, (1 << 252) - 1, 1 << 252, kmax // 3, kmax - (1 << 200), kmax - 1]
    ks += [int.from_bytes(pat(k, 0, 32), "little") for k in (5, 6, 7)]
    rs = scalar_limb_elements(56) + scalar_limb_elements(21)
    if tier != "thorough":
        ks = ks[:2] + ks[4:5] + ks[7:8] + ks[10:13]
    for r in rs:
        if r >= L:
            continue
        for k in ks:
            x = r + k * L
            if x < (1 << 512):
                out.append((["sc_reduce %s" % H(x.to_bytes(64, "little"))], [le(r).hex()], None))
    # committed crafted inputs (tools/gen_scalar_corners.py): wide values for which a carry / borrow of the final carry chains of the
    # 21-bit-limb reduction is non-zero in limbs 5..11, and for which the top-limb fold happens with either sign
    import json as _json
    import os as _os
    kp = _os.path.join(_os.path.dirname(_os.path.dirname(_os.path.abspath(__file__))), "models", "kats", "scalar_corners.json")
    for hx in _json.load(open(kp))["reduce"]:
        x = int.from_bytes(bytes.fromhex(hx), "little")
        out.append((["sc_reduce h:%s" % hx], [le(x % L).hex()], None))
    canon = [0, 1, L - 1, L, L + 1, 1 << 252, (1 << 253) - 1, (1 << 255) - 1, (1 << 256) - 1, 2 * L, L - 2, (1 << 252) - 1]
    lb = L.to_bytes(32, "little")
    for i in range(32):
        for delta in (1, -1):
            v = bytearray(lb)
            v[i] = (v[i] + delta) % 256
            canon.append(int.from_bytes(v, "little"))
    # the comparison against L is a multi-limb borrow chain: perturb it at every bit
    for k in range(256):
        canon += [L + (1 << k), L - (1 << k), (1 << 252) + (1 << k), (1 << 253) - (1 << k), 1 << k, (1 << k) - 1, L - 1 - (1 << k), L + 1 + (1 << k)]
    for k in range(0, 252, 4):
        for j in (56, 112, 168, 224):
            canon += [(1 << 252) + (1 << j) + (1 << k), L + (1 << j) - (1 << k)]
    canon = sorted({v for v in canon if 0 <= v < (1 << 256)})
    for v in canon:
        b = v.to_bytes(32, "little")
        exp = ("T." + b.hex()) if v < L else "F"
        out.append((["sc_canon %s" % H(b)], [exp], None))
        if v < L:
            out.append((["sc_roundtrip %s" % H(b)], [b.hex()], None))
    return out


def scalar_limb_elements(radix):
    """scalars below 2^252 assembled from limb fields (56-bit limbs of the 64-bit backend, 21-bit limbs of the 32-bit one)"""
    if radix == 56:
        bounds_ = [0, 56, 112, 168, 224, 252]
        vals = lambda w: (0, 1, (1 << w) - 1)
    else:
        bounds_ = list(range(0, 252, 21)) + [252]
        vals = lambda w: (0, (1 << w) - 1)
    fields = [[v << lo for v in vals(hi - lo)] for lo, hi in zip(bounds_, bounds_[1:])]
    return [sum(c) for c in itertools.product(*fields)]


def digit_scalars():
    """scalars whose radix-16 / binary digit strings contain every carry chain: constant nibbles, runs of 0xF / 0x8 / 0x7 of every length
    at every position, single nibbles, alternating patterns"""
    out = [0, 1, L - 1, L, (1 << 252) - 1, (1 << 253) - 1, (1 << 255) - 1]
    for v in range(16):
        out.append(int(("%x" % v) * 63, 16) | ((v & 7) << 252))
    for run_v in (0xF, 0x8, 0x7, 0x9):
        for start in range(0, 63, 3):
            for ln in (1, 2, 3, 7, 16, 33, 63 - start):
                if start + ln > 63:
                    continue
                x = 0
                for i in range(start, start + ln):
                    x |= run_v << (4 * i)
                out += [x, x | (1 << (4 * (start + ln))) if start + ln < 63 else x, x | 7 << 252]
    for pos in range(64):
        for v in (1, 7, 8, 9, 15):
            x = v << (4 * pos)
            if x < (1 << 255):
                out.append(x)
    out += [int.from_bytes(pat(k, o, 32), "little") & ((1 << 255) - 1) for k in (5, 6, 7, 2, 4) for o in (0, 32, 64)]
    return sorted(set(out))


def _nibbles_ok(a):
    def pred(o):
        if len(o) != 128:
            return False
        d = [b - 256 if b > 127 else b for b in bytes.fromhex(o)]
        return all(0 <= x <= 15 for x in d) and sum(x << (4 * i) for i, x in enumerate(d)) == a
    pred.__name__ = "radix16_digits_in_0..15_summing_to_%x" % a
    return pred


def _slide_ok(a):
    def pred(o):
        if len(o) != 512:
            return False
        d = [b - 256 if b > 127 else b for b in bytes.fromhex(o)]
        return all(x == 0 or (x % 2 != 0 and -15 <= x <= 15) for x in d) and sum(x << i for i, x in enumerate(d)) == a
    pred.__name__ = "odd_digits_in_-15..15_summing_to_%x" % a
    return pred


def scalar_hook_cases(tier, part, nparts):
    """(a*b + c) mod L on limb-field scalars (a, c reduced; b below 2^255 like a clamped secret), and the signed digit recodings:
    the digits must stay in range and sum back to the scalar (nibbles() yields the unsigned radix-16 digits; the signed recoding inside
    scalarmult_base is driven by the same carry-chain scalars through `ge base:`)"""
    out = []
    n = 0
    e56 = scalar_limb_elements(56)
    e21 = scalar_limb_elements(21)
    cs = [0, 1, L - 1, (1 << 252) - 1]
    top = [0, 1 << 252, 7 << 252]
    groups = [(e56, e56), (e21, e21[::257] + e21[-2:])] if tier != "thorough" else [(e56, e56), (e21, e21[::5] + e21[-2:])]
    for A, Bs in groups:
        for a in A:
            for b in Bs:
                n += 1
                if n % nparts != part:
                    continue
                for c in cs:
                    bb = b | top[(n + c) % 3]
                    out.append((["sc_muladd %s %s %s" % (H(le(a)), H(le(bb)), H(le(c)))], [le((a * bb + c) % L).hex()], None))
    for a in digit_scalars() + [x for x in e56 + e21[::9]]:
        n += 1
        if n % nparts != part:
            continue
        if a < (1 << 255):
            out.append((["sc_nibbles %s" % H(le(a))], [_nibbles_ok(a)], None))
        out.append((["sc_slide %s" % H(le(a))], [_slide_ok(a)], None))
    return out


# ------------------------------------------------------------------ group
def point_set():
    """(name, point) - B, 2B, identity, the 8 small-order points (identity included once), 3 pattern points"""
    pts = [curve.BASE, curve.pt_add(curve.BASE, curve.BASE)]
    pts += curve.small_order_points()
    for k in (5, 6, 7):
        s = int.from_bytes(pat(k, 0, 32), "little") % L
        pts.append(curve.base_mul(s))
    return pts


def dsm_scalars():
    s = [0, 1] + list(range(3, 16, 2)) + [2, 8, 16, L - 1, L, 1 << 252, (1 << 253) - 1, (1 << 255) - 1]
    s += [int.from_bytes(pat(k, 0, 32), "little") & ((1 << 255) - 1) for k in (5, 6, 7, 2)]
    return s


def base_scalars():
    s = [0, 1, 2, L - 1, L, 1 << 252, (1 << 253) - 1, (1 << 255) - 1, 8, 16, 255, 256]
    for pos in range(64):
        for v in range(1, 16):
            x = v << (4 * pos)
            if x < (1 << 255):
                s.append(x)
    s += [int.from_bytes(pat(k, o, 32), "little") & ((1 << 255) - 1) for k in (5, 6, 7, 2) for o in (0, 32)]
    # carry chains of the signed radix-16 recoding: runs of 8..F digits of every length at every position, up to the top digit
    s += [x for x in digit_scalars() if x < (1 << 255)]
    return s


def both(f, pq):
    """apply f to the pair (value if from_bytes decodes to P, value if it decodes to -P)"""
    return (f(pq[0]), f(pq[1]))


def enc_alt(pq):
    a, b = curve.pt_encode(pq[0]).hex(), curve.pt_encode(pq[1]).hex()
    return a if a == b else (a, b)


def dec_token(p):
    """token that pushes a point through Ge::from_bytes: the model carries both conventions"""
    return "dec:" + curve.pt_encode(p).hex(), (p, curve.pt_neg(p))


def group_cases_codec():
    out = []
    for p in point_set() + [curve.pt_mul(k, curve.BASE) for k in (3, 4, 5, 7, 8, 9)]:
        e = curve.pt_encode(p)
        # the property: decoding an encoded point returns that same point
        out.append((["ge dec:%s enc" % e.hex()], ["T." + e.hex()], {"kind": "decode-roundtrip", "neg": curve.pt_encode(curve.pt_neg(p)).hex()}))
    # non-canonical encodings decode to the point with y reduced; re-encoding gives the canonical string of that point (either sign convention)
    from .c14 import special_points
    for e in special_points():
        p = curve.pt_decode(e)
        if p is None:
            out.append((["ge dec:%s" % e.hex()], ["F"], {"kind": "non-point"}))
        else:
            a, b = curve.pt_encode(p).hex(), curve.pt_encode(curve.pt_neg(p)).hex()
            canonical = curve.pt_encode(p) == e
            exp = ("T." + a) if canonical else tuple({"T." + a, "T." + b})
            out.append((["ge dec:%s enc" % e.hex()], [exp], {"kind": "decode-roundtrip" if canonical else "decode-noncanonical", "neg": b}))
    return out


def group_cases_base():
    out = []
    for s in base_scalars():
        out.append((["ge base:%s enc penc" % le(s).hex()], ["%s.%s" % ((curve.pt_encode(curve.base_mul(s)).hex(),) * 2)], None))
    return out


def group_cases_dsm(part, nparts):
    out = []
    sc = dsm_scalars()
    pts = point_set()
    n = 0
    for a in sc:
        for b in sc:
            n += 1
            if n % nparts != part:
                continue
            bB = curve.base_mul(b)
            for p in pts:
                tok, pq = dec_token(p)
                alt = both(lambda x: curve.pt_encode(curve.pt_add(curve.pt_mul(a, x), bB)).hex(), pq)
                exp = alt[0] if alt[0] == alt[1] else alt
                out.append((["ge %s dsm:%s:%s" % (tok, le(a).hex(), le(b).hex())], [_pref("T", exp)], None))
    return out


def _pref(prefix, exp):
    if isinstance(exp, tuple):
        return tuple(prefix + "." + e for e in exp)
    return prefix + "." + exp


def group_cases_law():
    out = []
    pts = point_set()
    for p in pts:
        tp, pp = dec_token(p)
        dbl = both(lambda x: curve.pt_encode(curve.pt_add(x, x)).hex(), pp)
        e = dbl[0] if dbl[0] == dbl[1] else dbl
        ident = curve.pt_encode(curve.IDENT).hex()
        if isinstance(e, tuple):
            exp = tuple("T." + ".".join([x] * 8 + [ident]) for x in e)
        else:
            exp = "T." + ".".join([e] * 8 + [ident])
        # double through every public doubling path (incl. the completed-point forms converted both ways), and P - P = identity
        out.append((["ge %s dup dbl enc drop dblp pdbl pdblf dp1f dp1p pdp1f pdp1p dup sub enc" % tp], [exp], None))
        # adding / subtracting the identity in precomputed form leaves the point unchanged; by-value subtraction P - P
        pe = enc_alt(pp)
        if isinstance(pe, tuple):
            exp2 = tuple("T." + ".".join([x] * 3 + [ident]) for x in pe)
        else:
            exp2 = "T." + ".".join([pe] * 3 + [ident])
        out.append((["ge %s addpz enc subpz enc subpzv enc dup subv enc" % tp], [exp2], None))
        for q in pts:
            tq, qq = dec_token(q)
            add = (curve.pt_encode(curve.pt_add(pp[0], qq[0])).hex(), curve.pt_encode(curve.pt_add(pp[1], qq[1])).hex())
            sub = (curve.pt_encode(curve.pt_add(pp[0], curve.pt_neg(qq[0]))).hex(), curve.pt_encode(curve.pt_add(pp[1], curve.pt_neg(qq[1]))).hex())
            alts = tuple({"T.T.%s" % add[0], "T.T.%s" % add[1]})
            out.append((["ge %s %s add enc" % (tp, tq)], [alts if len(alts) > 1 else alts[0]], None))
            alts = tuple({"T.T.%s" % sub[0], "T.T.%s" % sub[1]})
            out.append((["ge %s %s sub enc" % (tp, tq)], [alts if len(alts) > 1 else alts[0]], None))
    out.append((["ge pzero"], [curve.pt_encode(curve.IDENT).hex()], None))
    # multiples of B built without decoding: (sB + tB) == (s+t)B, sB - tB, 2(sB)
    ss = [0, 1, 2, 7, 8, L - 1, (1 << 252) + 5] + [int.from_bytes(pat(k, 0, 32), "little") % L for k in (5, 6)]
    for s in ss:
        for t in ss:
            e1 = curve.pt_encode(curve.base_mul((s + t) % L)).hex()
            e2 = curve.pt_encode(curve.base_mul((s - t) % L)).hex()
            e3 = curve.pt_encode(curve.base_mul((2 * s) % L)).hex()
            out.append((["ge base:%s base:%s add enc drop base:%s base:%s sub enc drop base:%s dbl enc" % (le(s).hex(), le(t).hex(), le(s).hex(), le(t).hex(), le(s).hex())],
                        ["%s.%s.%s" % (e1, e2, e3)], None))
            # operands that come out of earlier group arithmetic (projective Z != 1) through the by-value subtraction, the doubled
            # operand on either side, and sums of sums
            e4 = curve.pt_encode(curve.base_mul((2 * s - t) % L)).hex()
            e5 = curve.pt_encode(curve.base_mul((s - 2 * t) % L)).hex()
            e6 = curve.pt_encode(curve.base_mul((2 * s + 2 * t) % L)).hex()
            out.append((["ge base:%s base:%s subv enc drop base:%s dbl base:%s subv enc drop base:%s base:%s dbl subv enc drop base:%s base:%s add dup add enc"
                         % (le(s).hex(), le(t).hex(), le(s).hex(), le(t).hex(), le(s).hex(), le(t).hex(), le(s).hex(), le(t).hex())],
                        ["%s.%s.%s.%s" % (e2, e4, e5, e6)], None))
    return out


def classify(v):
    """known finding: Ge::from_bytes(enc(P)) yields -P"""
    meta = v.get("meta") or {}
    if meta.get("kind") == "decode-roundtrip" and v["observed"] == "T." + meta.get("neg", "?"):
        return "ge-from-bytes-negates"
    return None


# ------------------------------------------------------------------ shards
def core_leaves(tier, n):
    ls = leaves()
    pick = [0, 1, 4, 5, 9, 8, 11, 12, len(ls) - 1, 2, 14, 15, 16, 3]
    return [ls[i] for i in pick[:n]]


def cases(tier):
    """build-independent case list for C17 / C20 (quick-sized regardless of tier for the field level-1 set)"""
    out = field_cases_level1(leaves(), core_leaves(tier, 6)) + field_cases_level2(core_leaves(tier, 3)) + eq_cases(core_leaves(tier, 10))
    out += scalar_cases(tier) + group_cases_codec() + group_cases_base() + group_cases_law()
    out += group_cases_dsm(0, 8)
    return out


def shards(tier):
    sh = [("shard_field1", None), ("shard_field2", None), ("shard_eq", None), ("shard_scalar", None), ("shard_codec", None), ("shard_base", None), ("shard_law", None)]
    sh += [("shard_dsm", i) for i in range(8)]
    sh += [("shard_limbs", i) for i in range(NLIMBSH)]
    sh += [("shard_scalar_hooks", i) for i in range(8)]
    if tier == "thorough":
        sh.append(("shard_field3", None))
    return sh


def _run(cs):
    from mc.core import load_known
    ck = core.Checker(PROPERTY_ID, classify=classify, known_ids=load_known().get(PROPERTY_ID, {}).keys())
    for off in range(0, len(cs), 20000):
        ck.run(cs[off:off + 20000])
    ck.stats.states = len(cs)
    return ck.stats


def shard_field1(_, tier):
    return _run(field_cases_level1(leaves(), core_leaves(tier, 12 if tier == "thorough" else 8)))


def shard_field2(_, tier):
    return _run(field_cases_level2(core_leaves(tier, 6 if tier == "thorough" else 4)))


def shard_field3(_, tier):
    return _run(field_cases_level3(core_leaves(tier, 4)))


def shard_limbs(i, tier):
    return _run(limb_cases(tier, i, NLIMBSH) + steer_cases(tier, i, NLIMBSH) + (lazy_sum_cases() if i == 0 else []))


def shard_scalar_hooks(i, tier):
    return _run(scalar_hook_cases(tier, i, 8))


def shard_eq(_, tier):
    return _run(eq_cases(leaves()))


def shard_scalar(_, tier):
    return _run(scalar_cases(tier))


def shard_codec(_, tier):
    return _run(group_cases_codec())


def shard_base(_, tier):
    return _run(group_cases_base())


def shard_law(_, tier):
    return _run(group_cases_law())


def shard_dsm(i, tier):
    return _run(group_cases_dsm(i, 8))
