"""C15 - field, scalar and group arithmetic match GF(2^255-19), Z/L and the curve."""
import itertools

from mc import core
from mc.patterns import pat, P, H, obs_of
from models import curve, selfcheck

PROPERTY_ID = "C15"
RULE = ("programs for a field stack machine (push 32-byte encoding, add, sub, neg, mul, sq, sqn k, sq2, inv, pow25523; observations to_bytes, is_negative, "
        "is_nonzero, ==) enumerated from the grammar M ::= leaf | mul(A,A) | sq(A) | sqn(A,k) | sq2(A) | inv(A) | pow25523(A), A ::= M | add(M,M) | sub(M,M) | neg(M) "
        "(the documented operand discipline) to nesting depth 2 (thorough 3) over boundary leaves (0,1,2,19,p-1,p,p+1,2^255-20,2^255-1,2^256-1,2^254,sqrt(-1),d,2d, "
        "limb-edge patterns, patterns); scalar wide reduction on 0,1,L-1,L,L+1,2L,kL-1,kL,kL+1, every 2^i (i<512), 2^512-1, and a sweep of 30000 (thorough 200000) pattern windows; canonical decoder on values "
        "around L and every byte of L +-1; group stack machine: s*B for every single-nibble scalar and boundary scalars, a*A+b*B for all pairs of boundary scalars "
        "(incl. every odd 1..15) x 14 points, double/add/sub for all pairs of the point set, encode/decode of all points, non-canonical encodings and non-points; "
        "oracle = python integers / RFC 8032 point arithmetic; distinct = program text")
ASSUMPTIONS = ["python integer arithmetic modulo p and L", "scalar-multiplication operands >= 2^255 are outside the documented range and not generated",
               "field programs respect the documented discipline (at most one unreduced add/sub feeding a multiplication)"]

PP, L = curve.P, curve.L


def builds_needed(tier):
    return ["rel"]


def bounds(tier):
    return {"field_depth": 3 if tier == "thorough" else 2, "leaves": len(leaves()), "single_nibble_scalars": 63 * 15 + 7,
            "dsm_scalars": len(dsm_scalars()), "points": 14}


def validate_models(tier):
    selfcheck.check_curve()


def le(x):
    return (x % (1 << 256)).to_bytes(32, "little")


def leaves():
    d = curve.D
    vals = [0, 1, 2, 19, PP - 1, PP, PP + 1, (1 << 255) - 20, (1 << 255) - 1, (1 << 256) - 1, 1 << 254, curve.SQRTM1, d, 2 * d % PP]
    # limb edges of the 51-bit and of the 25.5-bit representations
    for i in (51, 102, 153, 204):
        vals += [(1 << i) - 1, 1 << i]
    for i in (26, 77, 128, 179, 230):
        vals += [(1 << i) - 1, 1 << i]
    vals += [(1 << 255) - (1 << 51), ((1 << 255) - 1) ^ ((1 << 204) - 1)]
    out = [le(v) for v in vals]
    out += [pat(k, 0, 32) for k in (5, 6, 7)]
    res = []
    for b in out:
        if b not in res:
            res.append(b)
    return res


def fval(b):
    return (int.from_bytes(b, "little") & ((1 << 255) - 1)) % PP


# ------------------------------------------------------------------ field expression terms
# a term is (tokens, value, cls) with cls "M" (reduced) or "A" (one pending add/sub/neg)
def leaf_terms(ls):
    return [([b.hex()], fval(b), "M") for b in ls]


def a_forms(ms):
    """A ::= M | add(M,M) | sub(M,M) | neg(M)"""
    out = list(ms)
    for (t1, v1, _), (t2, v2, _) in itertools.product(ms, ms):
        out.append((t1 + t2 + ["add"], (v1 + v2) % PP, "A"))
        out.append((t1 + t2 + ["sub"], (v1 - v2) % PP, "A"))
    for (t1, v1, _) in ms:
        out.append((t1 + ["neg"], (-v1) % PP, "A"))
    return out


def unary_ms(a):
    t, v, _ = a
    out = [(t + ["sq"], v * v % PP, "M"), (t + ["sq2"], 2 * v * v % PP, "M"),
           (t + ["inv"], pow(v, PP - 2, PP), "M"), (t + ["pow25523"], pow(v, (PP - 5) // 8, PP), "M")]
    for k in (0, 1, 2, 5):
        out.append((t + ["sqn:%d" % k], pow(v, 1 << k, PP), "M"))
    return out


def mul_m(a, b):
    return (a[0] + b[0] + ["mul"], a[1] * b[1] % PP, "M")


def observe(term):
    t, v, _ = term
    enc = v.to_bytes(32, "little").hex()
    exp = "%s.%s.%s" % (enc, "T" if v & 1 else "F", "T" if v else "F")
    return (["fe " + " ".join(t + ["bytes", "isneg", "isnz"])], [exp], None)


def field_cases_level1(ls_full, ls_core):
    """depth 1: one M operator applied to A-forms of leaves"""
    out = []
    A_full = a_forms(leaf_terms(ls_full))
    for a in A_full:
        out.append(observe(a))
        for m in unary_ms(a):
            out.append(observe(m))
    lf = leaf_terms(ls_full)
    for a, b in itertools.product(lf, lf):
        out.append(observe(mul_m(a, b)))
    A_core = a_forms(leaf_terms(ls_core))
    for a, b in itertools.product(A_core, A_core):
        out.append(observe(mul_m(a, b)))
    return out


def m1_terms(ls):
    lf = leaf_terms(ls)
    out = []
    for a, b in itertools.product(lf, lf):
        out.append(mul_m(a, b))
    for a in lf:
        t, v, _ = a
        out += [(t + ["sq"], v * v % PP, "M"), (t + ["sq2"], 2 * v * v % PP, "M"), (t + ["inv"], pow(v, PP - 2, PP), "M")]
    return out


def field_cases_level2(ls_core2):
    """depth 2: M operators applied to A-forms built from depth-1 terms and leaves"""
    out = []
    base = leaf_terms(ls_core2) + m1_terms(ls_core2)
    A2 = a_forms(base)
    lf = leaf_terms(ls_core2)
    for a in A2:
        for m in unary_ms(a):
            out.append(observe(m))
        for b in lf:
            out.append(observe(mul_m(a, b)))
            out.append(observe(mul_m(b, a)))
    return out


def field_cases_level3(ls_core3):
    out = []
    lf = leaf_terms(ls_core3)
    m1 = m1_terms(ls_core3)
    base1 = lf + m1
    m2 = []
    for a in a_forms(base1):
        m2.append((a[0] + ["sq"], a[1] * a[1] % PP, "M"))
        for b in lf:
            m2.append(mul_m(a, b))
    A3 = a_forms(lf[:2] + m2[::(max(1, len(m2) // 120))])
    for a in A3:
        for m in unary_ms(a)[:4]:
            out.append(observe(m))
        out.append(observe(mul_m(a, lf[-1])))
    return out


def eq_cases(ls):
    """== on differently represented equal / unequal elements"""
    out = []
    lf = leaf_terms(ls)
    for (t1, v1, _), (t2, v2, _) in itertools.product(lf, lf):
        s = (v1 + v2) % PP
        canon = [s.to_bytes(32, "little").hex()]
        out.append((["fe " + " ".join(t1 + t2 + ["add"] + canon + ["eq"])], ["T"], None))
        out.append((["fe " + " ".join(t1 + t2 + ["sub"] + canon + ["eq"])], ["T" if (v1 - v2) % PP == s else "F"], None))
        out.append((["fe " + " ".join(t1 + t2 + ["mul"] + [(v1 * v2 % PP).to_bytes(32, "little").hex()] + ["eq"])], ["T"], None))
        out.append((["fe " + " ".join(t1 + t2 + ["eq"])], ["T" if v1 == v2 else "F"], None))
    for (t1, v1, _) in lf:
        out.append((["fe " + " ".join(t1 + t1 + ["sub", "zero", "eq"])], ["T"], None))
        out.append((["fe " + " ".join(t1 + ["neg"] + [((-v1) % PP).to_bytes(32, "little").hex(), "eq"])], ["T"], None))
        out.append((["fe " + " ".join(t1 + ["sqn:0"] + t1 + ["eq"])], ["T"], None))
    # elements whose canonical encodings differ by the same mask in two or four 64-bit words (a folded comparison would call them equal)
    for base in (0, 5, int.from_bytes(pat(5, 0, 31), "little")):
        for mask in (1, 0xff, 0x0101010101010101, (1 << 62)):
            for words in ((0, 1), (0, 2), (1, 3), (0, 3), (0, 1, 2, 3)):
                o = base
                for w in words:
                    o ^= mask << (64 * w)
                if o % PP == base % PP or o >= (1 << 255) - 19 or base >= PP:
                    continue
                out.append((["fe %s %s eq" % (le(base).hex(), le(o).hex())], ["F"], None))
                out.append((["fe %s %s sub isnz" % (le(base).hex(), le(o).hex())], ["T"], None))
    for name, v in (("zero", 0), ("one", 1), ("sqrtm1", curve.SQRTM1), ("d", curve.D), ("d2", 2 * curve.D % PP)):
        out.append((["fe %s bytes" % name], [v.to_bytes(32, "little").hex()], None))
    return out


# ------------------------------------------------------------------ scalars
def scalar_cases(tier):
    out = []
    wide = [0, 1, L - 1, L, L + 1, 2 * L, 1 << 252, (1 << 256) - 1, 1 << 256, (1 << 512) - 1]
    for k in (1 << 64, 1 << 128, 1 << 252, ((1 << 512) - 1) // L):
        wide += [k * L - 1, k * L, k * L + 1]
    wide += [1 << i for i in range(512)]
    wide += [(1 << i) - 1 for i in range(1, 512, 7)]
    wide = [w for w in wide if 0 <= w < (1 << 512)]
    for w in wide:
        out.append((["sc_reduce %s" % H(w.to_bytes(64, "little"))], [(w % L).to_bytes(32, "little").hex()], None))
    for k in (5, 6, 7, 2, 1):
        for off in (0, 64):
            b = pat(k, off, 64)
            out.append((["sc_reduce %s" % H(b)], [(int.from_bytes(b, "little") % L).to_bytes(32, "little").hex()], None))
    # value-dependent paths of the Barrett reduction fire with probability ~2^-12 per input: sweep many pattern windows
    nsweep = 200000 if tier == "thorough" else 30000
    for i in range(nsweep):
        b = pat(5 + (i % 3), 64 * (i // 3) % 65000 + (i % 61), 64)
        out.append((["sc_reduce %s" % H(b)], [(int.from_bytes(b, "little") % L).to_bytes(32, "little").hex()], None))
    canon = [0, 1, L - 1, L, L + 1, 1 << 252, (1 << 253) - 1, (1 << 255) - 1, (1 << 256) - 1, 2 * L, L - 2, (1 << 252) - 1]
    lb = L.to_bytes(32, "little")
    for i in range(32):
        for delta in (1, -1):
            v = bytearray(lb)
            v[i] = (v[i] + delta) % 256
            canon.append(int.from_bytes(v, "little"))
    # the comparison against L is a multi-limb borrow chain: perturb it at every bit
    for k in range(256):
        canon += [L + (1 << k), L - (1 << k), (1 << 252) + (1 << k), (1 << 253) - (1 << k), 1 << k, (1 << k) - 1, L - 1 - (1 << k), L + 1 + (1 << k)]
    for k in range(0, 252, 4):
        for j in (56, 112, 168, 224):
            canon += [(1 << 252) + (1 << j) + (1 << k), L + (1 << j) - (1 << k)]
    canon = sorted({v for v in canon if 0 <= v < (1 << 256)})
    for v in canon:
        b = v.to_bytes(32, "little")
        exp = ("T." + b.hex()) if v < L else "F"
        out.append((["sc_canon %s" % H(b)], [exp], None))
        if v < L:
            out.append((["sc_roundtrip %s" % H(b)], [b.hex()], None))
    return out


# ------------------------------------------------------------------ group
def point_set():
    """(name, point) - B, 2B, identity, the 8 small-order points (identity included once), 3 pattern points"""
    pts = [curve.BASE, curve.pt_add(curve.BASE, curve.BASE)]
    pts += curve.small_order_points()
    for k in (5, 6, 7):
        s = int.from_bytes(pat(k, 0, 32), "little") % L
        pts.append(curve.base_mul(s))
    return pts


def dsm_scalars():
    s = [0, 1] + list(range(3, 16, 2)) + [2, 8, 16, L - 1, L, 1 << 252, (1 << 253) - 1, (1 << 255) - 1]
    s += [int.from_bytes(pat(k, 0, 32), "little") & ((1 << 255) - 1) for k in (5, 6, 7, 2)]
    return s


def base_scalars():
    s = [0, 1, 2, L - 1, L, 1 << 252, (1 << 253) - 1, (1 << 255) - 1, 8, 16, 255, 256]
    for pos in range(64):
        for v in range(1, 16):
            x = v << (4 * pos)
            if x < (1 << 255):
                s.append(x)
    s += [int.from_bytes(pat(k, o, 32), "little") & ((1 << 255) - 1) for k in (5, 6, 7, 2) for o in (0, 32)]
    return s


def both(f, pq):
    """apply f to the pair (value if from_bytes decodes to P, value if it decodes to -P)"""
    return (f(pq[0]), f(pq[1]))


def enc_alt(pq):
    a, b = curve.pt_encode(pq[0]).hex(), curve.pt_encode(pq[1]).hex()
    return a if a == b else (a, b)


def dec_token(p):
    """token that pushes a point through Ge::from_bytes: the model carries both conventions"""
    return "dec:" + curve.pt_encode(p).hex(), (p, curve.pt_neg(p))


def group_cases_codec():
    out = []
    for p in point_set() + [curve.pt_mul(k, curve.BASE) for k in (3, 4, 5, 7, 8, 9)]:
        e = curve.pt_encode(p)
        # the property: decoding an encoded point returns that same point
        out.append((["ge dec:%s enc" % e.hex()], ["T." + e.hex()], {"kind": "decode-roundtrip", "neg": curve.pt_encode(curve.pt_neg(p)).hex()}))
    # non-canonical encodings decode to the point with y reduced; re-encoding gives the canonical string of that point (either sign convention)
    from .c14 import special_points
    for e in special_points():
        p = curve.pt_decode(e)
        if p is None:
            out.append((["ge dec:%s" % e.hex()], ["F"], {"kind": "non-point"}))
        else:
            a, b = curve.pt_encode(p).hex(), curve.pt_encode(curve.pt_neg(p)).hex()
            canonical = curve.pt_encode(p) == e
            exp = ("T." + a) if canonical else tuple({"T." + a, "T." + b})
            out.append((["ge dec:%s enc" % e.hex()], [exp], {"kind": "decode-roundtrip" if canonical else "decode-noncanonical", "neg": b}))
    return out


def group_cases_base():
    out = []
    for s in base_scalars():
        out.append((["ge base:%s enc penc" % le(s).hex()], ["%s.%s" % ((curve.pt_encode(curve.base_mul(s)).hex(),) * 2)], None))
    return out


def group_cases_dsm(part, nparts):
    out = []
    sc = dsm_scalars()
    pts = point_set()
    n = 0
    for a in sc:
        for b in sc:
            n += 1
            if n % nparts != part:
                continue
            bB = curve.base_mul(b)
            for p in pts:
                tok, pq = dec_token(p)
                alt = both(lambda x: curve.pt_encode(curve.pt_add(curve.pt_mul(a, x), bB)).hex(), pq)
                exp = alt[0] if alt[0] == alt[1] else alt
                out.append((["ge %s dsm:%s:%s" % (tok, le(a).hex(), le(b).hex())], [_pref("T", exp)], None))
    return out


def _pref(prefix, exp):
    if isinstance(exp, tuple):
        return tuple(prefix + "." + e for e in exp)
    return prefix + "." + exp


def group_cases_law():
    out = []
    pts = point_set()
    for p in pts:
        tp, pp = dec_token(p)
        dbl = both(lambda x: curve.pt_encode(curve.pt_add(x, x)).hex(), pp)
        e = dbl[0] if dbl[0] == dbl[1] else dbl
        ident = curve.pt_encode(curve.IDENT).hex()
        if isinstance(e, tuple):
            exp = tuple("T." + ".".join([x] * 4 + [ident]) for x in e)
        else:
            exp = "T." + ".".join([e] * 4 + [ident])
        # double through every public doubling path, and P - P = identity
        out.append((["ge %s dup dbl enc drop dblp pdbl pdblf dup sub enc" % tp], [exp], None))
        # adding / subtracting the identity in precomputed form leaves the point unchanged; by-value subtraction P - P
        pe = enc_alt(pp)
        if isinstance(pe, tuple):
            exp2 = tuple("T." + ".".join([x] * 3 + [ident]) for x in pe)
        else:
            exp2 = "T." + ".".join([pe] * 3 + [ident])
        out.append((["ge %s addpz enc subpz enc subpzv enc dup subv enc" % tp], [exp2], None))
        for q in pts:
            tq, qq = dec_token(q)
            add = (curve.pt_encode(curve.pt_add(pp[0], qq[0])).hex(), curve.pt_encode(curve.pt_add(pp[1], qq[1])).hex())
            sub = (curve.pt_encode(curve.pt_add(pp[0], curve.pt_neg(qq[0]))).hex(), curve.pt_encode(curve.pt_add(pp[1], curve.pt_neg(qq[1]))).hex())
            alts = tuple({"T.T.%s" % add[0], "T.T.%s" % add[1]})
            out.append((["ge %s %s add enc" % (tp, tq)], [alts if len(alts) > 1 else alts[0]], None))
            alts = tuple({"T.T.%s" % sub[0], "T.T.%s" % sub[1]})
            out.append((["ge %s %s sub enc" % (tp, tq)], [alts if len(alts) > 1 else alts[0]], None))
    # multiples of B built without decoding: (sB + tB) == (s+t)B, sB - tB, 2(sB)
    ss = [0, 1, 2, 7, 8, L - 1, (1 << 252) + 5] + [int.from_bytes(pat(k, 0, 32), "little") % L for k in (5, 6)]
    for s in ss:
        for t in ss:
            e1 = curve.pt_encode(curve.base_mul((s + t) % L)).hex()
            e2 = curve.pt_encode(curve.base_mul((s - t) % L)).hex()
            e3 = curve.pt_encode(curve.base_mul((2 * s) % L)).hex()
            out.append((["ge base:%s base:%s add enc drop base:%s base:%s sub enc drop base:%s dbl enc" % (le(s).hex(), le(t).hex(), le(s).hex(), le(t).hex(), le(s).hex())],
                        ["%s.%s.%s" % (e1, e2, e3)], None))
    return out


def classify(v):
    """known finding: Ge::from_bytes(enc(P)) yields -P"""
    meta = v.get("meta") or {}
    if meta.get("kind") == "decode-roundtrip" and v["observed"] == "T." + meta.get("neg", "?"):
        return "ge-from-bytes-negates"
    return None


# ------------------------------------------------------------------ shards
def core_leaves(tier, n):
    ls = leaves()
    pick = [0, 1, 4, 5, 9, 8, 11, 12, len(ls) - 1, 2, 14, 15, 16, 3]
    return [ls[i] for i in pick[:n]]


def cases(tier):
    """build-independent case list for C17 / C20 (quick-sized regardless of tier for the field level-1 set)"""
    out = field_cases_level1(leaves(), core_leaves(tier, 6)) + field_cases_level2(core_leaves(tier, 3)) + eq_cases(core_leaves(tier, 10))
    out += scalar_cases(tier) + group_cases_codec() + group_cases_base() + group_cases_law()
    out += group_cases_dsm(0, 8)
    return out


def shards(tier):
    sh = [("shard_field1", None), ("shard_field2", None), ("shard_eq", None), ("shard_scalar", None), ("shard_codec", None), ("shard_base", None), ("shard_law", None)]
    sh += [("shard_dsm", i) for i in range(8)]
    if tier == "thorough":
        sh.append(("shard_field3", None))
    return sh


def _run(cs):
    from mc.core import load_known
    ck = core.Checker(PROPERTY_ID, classify=classify, known_ids=load_known().get(PROPERTY_ID, {}).keys())
    for off in range(0, len(cs), 20000):
        ck.run(cs[off:off + 20000])
    ck.stats.states = len(cs)
    return ck.stats


def shard_field1(_, tier):
    return _run(field_cases_level1(leaves(), core_leaves(tier, 12 if tier == "thorough" else 8)))


def shard_field2(_, tier):
    return _run(field_cases_level2(core_leaves(tier, 6 if tier == "thorough" else 4)))


def shard_field3(_, tier):
    return _run(field_cases_level3(core_leaves(tier, 4)))


def shard_eq(_, tier):
    return _run(eq_cases(leaves()))


def shard_scalar(_, tier):
    return _run(scalar_cases(tier))


def shard_codec(_, tier):
    return _run(group_cases_codec())


def shard_base(_, tier):
    return _run(group_cases_base())


def shard_law(_, tier):
    return _run(group_cases_law())


def shard_dsm(i, tier):
    return _run(group_cases_dsm(i, 8))
