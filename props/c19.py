"""C19 - secret values never influence which instructions execute."""
import json
import os

from mc import core
from mc.patterns import pat

PROPERTY_ID = "C19"
RULE = ("2-safety by self-composition over an enumerated secret alphabet: for each operation (X25519 general and fixed-base, Ed25519 keypair / signature / "
        "signature_extended, the wide scalar reduction on chosen remainders r + k*L around every comparison against the group order, XChaCha20 / ChaCha20-original / XSalsa20, HMAC-SHA1/-SHA512, keyed BLAKE2b MAC, ed25519::exchange, AEAD encryption, Poly1305 (also on the RFC 8439 A.3 wrap-around messages with keys r in {1,2}, s in {0,ff..} whose accumulator crosses 2^130-5), HMAC-SHA256, ChaCha20, Salsa20, MacResult == (lengths 16..64 incl. 20, 28, 33), Tag ==, incremental AEAD tag verdict) the release-profile victim (hooks off; for the curve operations also the victim built with --features force-32bits) is "
        "executed under valgrind lackey once per secret with all public inputs fixed; the complete sequence of instruction addresses between two markers must be "
        "identical to the baseline secret's; secrets: 00.., FF.., single-bit values, patterns; for comparisons: equal, and first mismatch at every position; the "
        "baseline is traced twice and must equal itself; a deliberately leaky operation must be flagged (tracer self-test) before any verdict; thorough re-traces the "
        "short operations with a ptrace single-stepper and requires the same sequences; a state = one (operation, secret) execution; distinct = (operation, secret)")
ASSUMPTIONS = ["instruction addresses only: data addresses are reported as information, micro-architectural timing is out of scope",
               "only the baseline x86-64 release builds (default and force-32bits) produced by this compiler are examined", "bounded-exhaustive over the secret alphabet, not a proof of constant-time code"]


def builds_needed(tier):
    return ["ctvictim", "ctvictim32"]


# operations whose code differs between the 64-bit and the forced 32-bit curve backend are traced on both victim builds
CURVE_OPS = ("x25519_dh", "x25519_base", "ed_keypair", "ed_sign", "ed_sign_ext", "ed_exchange", "sc_reduce")
L_ORDER = (1 << 252) + 27742317777372353535851937790883648493


def reduce_secrets(tier):
    """64-byte secrets r + k*L whose remainders sit on both sides of every comparison a reduction could make against the group
    order (top limb equal to / below L's, values next to 2^252, 0, L-1) with small, middle and maximal quotients"""
    rs = [5, 0, 1, (1 << 252) - 1, 1 << 252, (1 << 252) + 1, (1 << 252) + (1 << 223), (1 << 252) + (1 << 200) + 5, L_ORDER - 1, L_ORDER - 2,
          (1 << 224) - 1, 1 << 224, (1 << 251), (1 << 168) - 1]
    kmax = ((1 << 512) - 1) // L_ORDER
    ks = [3, 0, 1, kmax - 1, 1 << 128] if tier == "thorough" else [3, 0, kmax - 1]
    out = []
    for k in ks:
        for r in rs:
            x = r + k * L_ORDER
            if x < (1 << 512):
                b = x.to_bytes(64, "little")
                if b not in out:
                    out.append(b)
    out += [pat(5, 0, 64), b"\xff" * 64]
    return out


def bounds(tier):
    return {"secrets_per_op": "256 single-bit scalars for X25519, 32/16 single-bit for the others, every mismatch position" if tier == "thorough"
            else "00.., FF.., 4 single-bit, 1 pattern; 4 mismatch positions", "monitor": "valgrind lackey" + (" + ptrace single-step cross-check" if tier == "thorough" else ""),
            "victims": ["ctvictim", "ctvictim32 (curve operations)"], "reduce_secrets": len(reduce_secrets(tier))}


def bit(n, i):
    b = bytearray(n)
    b[i // 8] |= 1 << (i % 8)
    return bytes(b)


def secrets(n, tier, nbits_thorough, quick_bits):
    out = [bytes(n), b"\xff" * n]
    bits = range(0, 8 * n, max(1, (8 * n) // nbits_thorough)) if tier == "thorough" else quick_bits
    out += [bit(n, i) for i in bits]
    pats = (5, 6, 7, 2) if tier == "thorough" else (5,)
    out += [pat(k, 0, n) for k in pats]
    return out


def ops(tier):
    """(op, public hex, [secrets]) ; the first secret is the baseline"""
    U = pat(6, 3, 32).hex()
    msg67 = pat(5, 0, 67).hex()
    data130 = pat(5, 0, 130).hex()
    out = []
    out.append(("x25519_dh", U, secrets(32, tier, 256, (0, 3, 128, 254, 255))))
    out.append(("x25519_base", "", secrets(32, tier, 256, (0, 3, 128, 254, 255))))
    out.append(("ed_keypair", "", secrets(32, tier, 32, (0, 7, 128, 255))))
    out.append(("ed_sign", msg67, secrets(32, tier, 32, (0, 7, 128, 255))))
    out.append(("ed_sign_ext", msg67, secrets(64, tier, 32, (0, 254, 256, 511))))
    out.append(("poly1305", msg67, secrets(32, tier, 16, (0, 127, 128, 255))))
    # Poly1305 with crafted public messages and keys whose accumulator crosses 2^130-5 (RFC 8439 A.3 wrap-around inputs):
    # the final conditional subtraction must not become a branch
    ff16 = "ff" * 16
    r1, r2 = (1).to_bytes(16, "little"), (2).to_bytes(16, "little")
    special = [pat(5, 0, 32), r1 + bytes(16), r2 + bytes(16), r1 + b"\xff" * 16, r2 + b"\xff" * 16, bytes(32), b"\xff" * 32,
               bytes.fromhex("01000000000000000400000000000000") + bytes(16)]
    for pub in (ff16, "02" + "00" * 15, ff16 + "f0" + "ff" * 15 + "11" + "00" * 15, ff16 + "fb" + "fe" * 15 + "01" * 16, "fd" + "ff" * 15,
                "e33594d7505e43b900000000000000003394d7505e4379cd010000000000000000000000000000000000000000000000"):
        out.append(("poly1305", pub, special))
    # the same through three input calls: with r = 1 the accumulator is the plain block sum, so three zero blocks followed by a block
    # whose two low 26-bit limbs are saturated leave a pending limb carry exactly at the second call boundary for the r = 1 keys and
    # not for the others; likewise a first block with saturated low limbs at the first boundary
    m26 = (1 << 26) - 1
    blk = ((m26 - 2) | (m26 << 26) | (m26 << 52)).to_bytes(16, "little")
    for pub in (bytes(48) + blk + pat(5, 0, 21), blk + bytes(48) + pat(5, 0, 5), pat(5, 0, 67).hex() and pat(5, 0, 67)):
        out.append(("poly1305_split", pub.hex(), special))
    out.append(("hmac_sha256", msg67, secrets(32, tier, 16, (0, 127, 128, 255))))
    out.append(("chacha20", data130, secrets(32, tier, 16, (0, 127, 128, 255))))
    out.append(("salsa20", data130, secrets(32, tier, 16, (0, 127, 128, 255))))
    out.append(("sc_reduce", "", reduce_secrets(tier)))
    EDPUB = "d75a980182b10ab7d54bfed3c964073a0ee172f3daa62325af021a68f707511a"     # RFC 8032 test 1 public key
    more = [("xchacha20", data130, 32), ("chacha20_original", data130, 32), ("xsalsa20", data130, 32), ("hmac_sha512", msg67, 32), ("hmac_sha1", msg67, 20),
            ("blake2b_mac", msg67, 32), ("ed_exchange", EDPUB, 32), ("aead_encrypt", data130, 32)]
    for op, pub, n in more:
        out.append((op, pub, secrets(n, tier, 16, (0, 8 * n - 1))))
    # comparisons: the public side is fixed, the secret equals it or first differs at position i
    for op, n in (("macresult_eq", 32), ("macresult_eq", 20), ("macresult_eq", 28), ("macresult_eq", 33), ("macresult_eq", 64), ("tag_eq", 16)):
        base = pat(7, 0, n)
        pos = range(n) if tier == "thorough" else sorted({0, 1, 7, 8, n // 2, n - 2, n - 1})
        sec = [base]
        for i in pos:
            m = bytearray(base)
            m[i] ^= 0x5a
            for j in range(i + 1, n):
                m[j] ^= 0xff if (j % 2) else 0      # later bytes differ too in half of the positions
            sec.append(bytes(m))
        out.append((op, base.hex(), sec))
    # AEAD: verdict computation with the expected tag as the secret
    ct = pat(5, 0, 40)
    sec = [pat(7, 0, 16)] + [bit(16, i) for i in ((0, 64, 127) if tier != "thorough" else range(0, 128, 8))] + [bytes(16), b"\xff" * 16]
    out.append(("aead_decrypt_tagcheck", ct.hex(), sec))
    return out


def shards(tier):
    sh = []
    for oi, (op, pub, sec) in enumerate(ops(tier)):
        step = 3        # small shards: the long traces (X25519, signing) are the critical path, so they are spread over all workers
        for build in (("ctvictim", "ctvictim32") if op in CURVE_OPS else ("ctvictim",)):
            for lo in range(1, len(sec), step):
                sh.append(("shard", (oi, lo, min(len(sec), lo + step), build)))
    sh.append(("shard_selftest", None))
    if tier == "thorough":
        sh.append(("shard_ptrace", None))
    return sh


def _violation(st, op, pub, base, sec, why, build="ctvictim"):
    st.violation_count += 1
    if len(st.violations) < core.MAX_RECORDED:
        st.violations.append({"property": PROPERTY_ID, "build": build, "program": ["ctvictim %s %s %s" % (op, sec.hex(), pub), "baseline %s %s %s" % (op, base.hex(), pub)],
                              "step": 0, "expected": "instruction-address sequence identical to the baseline secret's", "observed": why,
                              "meta": {"op": op, "public": pub, "baseline": base.hex(), "secret": sec.hex()}, "note": None})


def shard(arg, tier):
    from tracer import lackey
    oi, lo, hi, build = arg
    op, pub, sec = ops(tier)[oi]
    st = core.Stats()
    base = sec[0]
    _trace = lackey.trace

    class _L:
        @staticmethod
        def trace(op, s, pub="", keep=False):
            return _trace(op, s, pub, keep=keep, build=build)
    lackey = _L
    n0, h0, d0, out0, _ = lackey.trace(op, base.hex(), pub)
    st.evaluations += 1
    if lo == 1:
        # the baseline must equal itself (monitor determinism)
        n1, h1, d1, out1, _ = lackey.trace(op, base.hex(), pub)
        st.evaluations += 1
        st.det_replays += 1
        if (n1, h1) != (n0, h0):
            raise core.MachineryError("lackey trace of %s is not reproducible: %d/%s vs %d/%s" % (op, n0, h0, n1, h1))
        st.cases.add(core.h8("%s %s" % (op, base.hex())))
        st.states += 1
    data_diff = 0
    for s in sec[lo:hi]:
        n, h, d, out, _ = lackey.trace(op, s.hex(), pub)
        st.evaluations += 1
        st.transitions += n
        st.traces += 1
        st.states += 1
        st.cases.add(core.h8("%s %s" % (op, s.hex())))
        st.observations.add(core.h8(out))
        if (n, h) != (n0, h0):
            # locate the first divergence
            _, _, _, _, a = lackey.trace(op, base.hex(), pub, keep=True)
            _, _, _, _, b = lackey.trace(op, s.hex(), pub, keep=True)
            k = next((i for i, (x, y) in enumerate(zip(a, b)) if x != y), min(len(a), len(b)))
            _violation(st, op, pub, base, s, "traces differ: %d vs %d instructions, first divergence at instruction #%d (offset %s vs %s from the begin marker)"
                       % (n0, n, k, hex(a[k]) if k < len(a) else "end", hex(b[k]) if k < len(b) else "end"), build)
        elif d != d0:
            data_diff += 1
    st.transitions += n0
    if len(st.samples) < 2:
        st.samples.append(["%s %s <secret %d bytes> %s..: %d instructions between the markers" % (build, op, len(base), pub[:16], n0)])
    st.extra["data_address_differences_info"] = data_diff
    st.extra["instructions_traced"] = st.transitions
    return st


def shard_selftest(_, tier):
    """a deliberately secret-dependent branch must produce different traces, otherwise the monitor is blind"""
    from tracer import lackey
    st = core.Stats()
    a = lackey.trace("selftest_leaky", "00ff")
    b = lackey.trace("selftest_leaky", "0000")
    st.evaluations += 2
    if (a[0], a[1]) == (b[0], b[1]):
        raise core.MachineryError("tracer self-test failed: the leaky operation was not flagged")
    st.extra["tracer_selftest_flagged_leaky_op"] = 1
    return st


def shard_ptrace(_, tier):
    """second monitor: ptrace single-stepping; the instruction-offset sequences of the short operations must agree with lackey's"""
    from tracer import lackey, pcstep
    st = core.Stats()
    base16, base32 = pat(7, 0, 16), pat(7, 0, 32)
    m16 = bytearray(base16)
    m16[5] ^= 1
    progs = [("tag_eq", base16.hex(), base16.hex()), ("tag_eq", bytes(m16).hex(), base16.hex()), ("macresult_eq", base32.hex(), base32.hex()),
             ("poly1305", pat(5, 0, 32).hex(), pat(5, 0, 67).hex()), ("selftest_leaky", "00ff", ""), ("selftest_leaky", "0000", "")]
    agree = 0

    def norm(seq):
        """instructions outside the victim's own image (libc memcpy & co, loaded at different addresses and possibly resolved to
        different ifunc variants under valgrind) are collapsed into one EXT token per excursion"""
        out = []
        for a in seq:
            if abs(a) > 0x2000000:
                if not out or out[-1] != "EXT":
                    out.append("EXT")
            else:
                out.append(a)
        return out

    for op, sec, pub in progs:
        _, _, _, _, a = lackey.trace(op, sec, pub, keep=True)
        b = pcstep.trace(op, sec, pub)
        a, b = norm(a), norm(b)
        st.evaluations += 2
        if a != b:
            k = next((i for i, (x, y) in enumerate(zip(a, b)) if x != y), min(len(a), len(b)))
            raise core.MachineryError("lackey and ptrace disagree on %s: %d vs %d instructions, first difference at #%d" % (op, len(a), len(b), k))
        agree += 1
    st.extra["ptrace_lackey_agreements"] = agree
    return st


def replay(v):
    """./check replay for C19: re-trace the two executions of the recorded violation"""
    from tracer import lackey
    m = v["meta"]
    build = v.get("build") or "ctvictim"
    a = lackey.trace(m["op"], m["baseline"], m["public"], build=build)
    b = lackey.trace(m["op"], m["secret"], m["public"], build=build)
    print("baseline: %d instructions, digest %s" % (a[0], a[1]))
    print("secret  : %d instructions, digest %s" % (b[0], b[1]))
    return (a[0], a[1]) == (b[0], b[1])
