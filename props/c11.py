"""C11 - Argon2d/i/id equal RFC 9106 for all parameters and tag lengths."""
from mc import core
from mc.patterns import pat, P, H, obs_of
from models import argon2, selfcheck

PROPERTY_ID = "C11"
RULE = ("one-step programs argon2_at / argon2::<T>: full product type {d,i,id} x version {0x10,0x13} x t 1..=4 x p 1..=5 x m in {8p,8p+1,8p+3,8p+7,16p,33p}; "
        "m in {516p,520p,520p+5} for p in {1,2,3} (segment length > 128: address block refresh inside a segment), m = 2048 for p in {1,4}; every tag length "
        "4..=300 on the smallest memory of each type; password/key/AAD lengths {0,1,8,16,32} and salt lengths {8,9,16,32}; array-returning vs slice-filling "
        "entry points for every instantiated T; the J1 -> reference-block mapping (hook) at every step of its floor-of-floor formula for reference areas of 1..65536 blocks; parameter setters on their boundaries; every sequence of <= 3 (thorough 4) setter calls in any order (the parameter object caches derived sizes); oracle = python RFC 9106 model; distinct = program text")
ASSUMPTIONS = ["python Argon2 model validated by the three RFC 9106 section 5 vectors and 42 OpenSSL 3.5 cross vectors (both versions, p=1, segment length 130, tags 4..128)",
               "memory above 2048 KiB is not explored", "salts shorter than 8 bytes and tags shorter than 4 bytes are outside the claim"]

ARR_SIZES = (4, 5, 16, 31, 32, 33, 63, 64, 65, 96, 97, 128, 300)


def builds_needed(tier):
    return ["rel"]


# Own corpus re-run on other builds of the crate (mc/core.py: extra builds). Every observation is compared with the same model.
def extra_builds(tier):
    # vector code reaches Argon2 only through BLAKE2b (H0 and the variable-length hash H'): the tag-length and input-length shards
    # drive every BLAKE2b shape Argon2 produces; the block-filling grid is re-run on the checked-arithmetic build
    def vec(fname, arg):
        return fname in ("shard_tags", "shard_inputs", "shard_h0len")

    def chk(fname, arg):
        return fname not in ("shard_big", "shard_wide")
    return [("relchk", chk), ("avx", vec), ("avx2", vec), ("native", vec), ("fe32", vec)]



def bounds(tier):
    if tier == "thorough":
        return {"t": "1..=4", "p": "1..=5", "m": "8p..33p set, every m in 8p..=12p+3 at t=1, 516p/520p/520p+5 (p<=3), 2048 (p in 1,4)", "tag_lengths": "4..=300", "extra": "p in {6,7,8,16}, t in {5,10}, m = 4096"}
    return {"t": "1..=2", "p": "1..=3", "m": "8p..33p set, one 520p case per type", "tag_lengths": "{4,5,31,32,33,63,64,65,96,97,128,300}"}


def validate_models(tier):
    selfcheck.check_argon2()
    selfcheck.check_cross()


def prog(ty, ver, t, p, m, pw, salt, key, aad, taglen, mode="at"):
    return "argon2 %s %d %d %d %d %s %s %s %s %d %s" % (ty, ver, t, p, m, H(pw), H(salt), H(key), H(aad), taglen, mode)


def shards(tier):
    sh = []
    ts = (1, 2, 3, 4) if tier == "thorough" else (1, 2)
    ps = (1, 2, 3, 4, 5) if tier == "thorough" else (1, 2, 3)
    for ty in ("d", "i", "id"):
        for ver in (0x13, 0x10):
            for p in ps:
                sh.append(("shard_grid", (ty, ver, p, ts)))
    for ty in ("d", "i", "id"):
        sh.append(("shard_tags", ty))
        sh.append(("shard_inputs", ty))
        if tier == "thorough":
            for ver in (0x13, 0x10):
                for p in (1, 2, 3):
                    for m in (516 * p, 520 * p, 520 * p + 5):
                        sh.append(("shard_big", (ty, ver, p, m, (1, 2))))
                for p in (1, 4):
                    sh.append(("shard_big", (ty, ver, p, 2048, (1,))))
        else:
            sh.append(("shard_big", (ty, 0x13, 1, 520, (1,))))
            sh.append(("shard_big", (ty, 0x10, 2, 1045, (1,))))
    if tier == "thorough":
        for ty in ("d", "i", "id"):
            sh.append(("shard_wide", ty))
    sh.append(("shard_setters", None))
    sh += [("shard_builder", ty) for ty in ("d", "i", "id")]
    sh += [("shard_index", i) for i in range(8)]
    sh += [("shard_h0len", ty) for ty in ("d", "i", "id")]
    return sh


def shard_h0len(ty, tier):
    """every password length 0..=136 (salt 16, no key, no associated data, and once with each of them non-empty): the pre-hash H0 absorbs
    40 + |P| + |S| + |K| + |X| bytes, so this drives every residue of its length modulo the BLAKE2b block, incl. exact multiples"""
    ck = core.Checker(PROPERTY_ID)
    cases = []
    for n in range(0, 137):
        for key, aad in ((b"", b""), (KEY, b"")) if n % 8 else ((b"", b""), (KEY, b""), (b"", AAD), (KEY, AAD)):
            pw = pat(5, 3, n)
            tag = argon2.argon2(ty, 0x13, 1, 1, 8, pw, SALT, key, aad, 32)
            cases.append(([prog(ty, 0x13, 1, 1, 8, pw, SALT, key, aad, 32)], [obs_of(tag)], None))
    ck.run(cases)
    ck.stats.states = len(cases)
    return ck.stats


def isqrt(n):
    import math
    return math.isqrt(n)


def index_j1_values(W):
    """J1 values around every step of y = floor(W * floor(J1^2 / 2^32) / 2^32): for each k the smallest J1 with y >= k, its two
    neighbours on either side, plus the extremes; for large W a spread of steps"""
    vals = {0, 1, 2, 65535, 65536, 65537, (1 << 31) - 1, 1 << 31, (1 << 31) + 1, (1 << 32) - 2, (1 << 32) - 1}
    if W <= 0:
        return sorted(vals)
    ks = range(1, W) if W <= 300 else sorted(set(list(range(1, 40)) + list(range(W - 40, W)) + [W * i // 97 for i in range(1, 97)] + [1 << i for i in range(1, W.bit_length())]))
    for k in ks:
        # y >= k  <=>  W*x >= k*2^32  <=>  x >= ceil(k*2^32/W) ;  x = floor(J1^2/2^32) >= X  <=>  J1 >= ceil(sqrt(X*2^32))
        X = -((-k << 32) // W)
        J = isqrt(X << 32)
        if J * J < (X << 32):
            J += 1
        # also the boundary of the fused formula floor(W*J1^2 / 2^64) >= k
        J2 = isqrt(-((-k << 64) // W))
        for c in (J, J2):
            for d in (-2, -1, 0, 1, 2):
                if 0 <= c + d < (1 << 32):
                    vals.add(c + d)
    return sorted(vals)


def shard_index(part, tier):
    """the J1 -> reference index mapping (hook), at every step of its floor-of-floor formula: reference-area sizes from 1 up to several
    thousand blocks, both passes, every slice, first / second / last index of a segment, same lane and other lane"""
    ck = core.Checker(PROPERTY_ID)
    cases = []
    n = 0
    geoms = [(8, 1), (9, 1), (16, 1), (24, 3), (33, 1), (64, 2), (100, 1), (520, 1), (1045, 2), (4096, 1)] + ([(8192, 1), (65536, 4), (1 << 20, 1)] if tier == "thorough" else [(65536, 4)])
    for (m, p) in geoms:
        SL = (4 * p * (m // (4 * p))) // p // 4
        for r in (0, 1):
            for s in range(4):
                for idx in sorted({0, 1, 2, SL // 2, SL - 1}):
                    for same in (1, 0):
                        if r == 0 and s == 0 and (idx < 2 or not same):
                            continue        # the first two blocks of a lane are not computed; slice 0 of pass 0 references its own lane only
                        if idx >= SL:
                            continue
                        n += 1
                        if n % 8 != part:
                            continue
                        _, W = argon2.ref_index(m, p, r, s, idx, bool(same), 0)
                        if W <= 0:
                            continue
                        js = index_j1_values(W)
                        for off in range(0, len(js), 400):
                            chunk = js[off:off + 400]
                            exp = ",".join(str(argon2.ref_index(m, p, r, s, idx, bool(same), j)[0]) for j in chunk)
                            cases.append((["argon2_index %d %d %d %d %d %d %s" % (m, p, r, s, idx, same, ",".join(map(str, chunk)))], [exp], None))
    ck.run(cases)
    ck.stats.states = len(cases)
    return ck.stats


def builder_sequences(depth):
    """every sequence of <= depth setter calls over m in {24,32,50,96}, p in {1,2,3}, t in {1,2}, version in {0x10,0x13}, kept only while
    the documented silent raise cannot trigger (m >= 8p after every call); the effective parameters are the last value given to each setter"""
    letters = [("m", v) for v in (24, 32, 50, 96)] + [("p", v) for v in (1, 2, 3)] + [("t", v) for v in (1, 2)] + [("v", v) for v in (16, 19)]
    out = []

    def rec(seq, st):
        if seq:
            out.append((list(seq), dict(st)))
        if len(seq) == depth:
            return
        for (k, v) in letters:
            st2 = dict(st)
            st2[k] = v
            if st2["m"] < 8 * st2["p"]:
                continue
            rec(seq + [(k, v)], st2)

    rec([], {"m": 32, "p": 1, "t": 1, "v": 19})
    return out


def shard_builder(ty, tier):
    """the parameter object is a small state machine of its own (it caches the rounded block count): every order of setter calls
    must give the tag of the final (m, p, t, version)"""
    ck = core.Checker(PROPERTY_ID)
    cases = []
    cache = {}
    for seq, st in builder_sequences(4 if tier == "thorough" else 3):
        k = (st["v"], st["t"], st["p"], st["m"])
        if k not in cache:
            cache[k] = obs_of(argon2.argon2(ty, st["v"], st["t"], st["p"], st["m"], PW, SALT, b"", b"", 16))
        cases.append((["argon2_built %s %s %s %s h: h: 16" % (ty, ",".join("%s%d" % kv for kv in seq), H(PW), H(SALT))], [cache[k]], None))
    ck.run(cases)
    ck.stats.states = len(cases)
    return ck.stats


PW, SALT, KEY, AAD = pat(5, 0, 16), pat(6, 0, 16), pat(7, 0, 8), pat(5, 40, 12)


def shard_grid(arg, tier):
    ty, ver, p, ts = arg
    ck = core.Checker(PROPERTY_ID)
    cases = []
    for t in ts:
        ms = [8 * p, 8 * p + 1, 8 * p + 3, 8 * p + 7, 16 * p, 33 * p]
        if tier == "thorough" and t == 1:
            ms = sorted(set(ms) | set(range(8 * p, 12 * p + 4)))      # every residue modulo 4p
        for m in ms:
            tag = argon2.argon2(ty, ver, t, p, m, PW, SALT, KEY, AAD, 32)
            cases.append(([prog(ty, ver, t, p, m, PW, SALT, KEY, AAD, 32), prog(ty, ver, t, p, m, PW, SALT, KEY, AAD, 32, "arr")],
                          [obs_of(tag), obs_of(tag)], None))
    ck.run(cases)
    ck.stats.states = len(cases)
    return ck.stats


def shard_big(arg, tier):
    ty, ver, p, m, ts = arg
    ck = core.Checker(PROPERTY_ID)
    cases = []
    for t in ts:
        tag = argon2.argon2(ty, ver, t, p, m, PW, SALT, b"", b"", 32)
        cases.append(([prog(ty, ver, t, p, m, PW, SALT, b"", b"", 32)], [obs_of(tag)], None))
    ck.run(cases)
    ck.stats.states = len(cases)
    return ck.stats


def shard_tags(ty, tier):
    ck = core.Checker(PROPERTY_ID)
    cases = []
    lens = range(4, 301) if tier == "thorough" else (4, 5, 31, 32, 33, 63, 64, 65, 96, 97, 128, 300)
    for ver in (0x13, 0x10):
        for n in lens:
            tag = argon2.argon2(ty, ver, 1, 1, 8, PW, SALT, b"", b"", n)
            ops, exp = [prog(ty, ver, 1, 1, 8, PW, SALT, b"", b"", n)], [obs_of(tag)]
            if n in ARR_SIZES:
                ops.append(prog(ty, ver, 1, 1, 8, PW, SALT, b"", b"", n, "arr"))
                exp.append(obs_of(tag))
            cases.append((ops, exp, None))
    ck.run(cases)
    ck.stats.states = len(cases)
    return ck.stats


def shard_inputs(ty, tier):
    ck = core.Checker(PROPERTY_ID)
    cases = []
    Ls = (0, 1, 8, 16, 32)
    for pl in Ls:
        for kl in Ls:
            for al in Ls:
                for sl in ((8, 9, 16, 32) if (pl, kl, al) in ((0, 0, 0), (8, 8, 8), (32, 1, 16)) else (8,)):
                    pw, salt, key, aad = pat(5, 0, pl), pat(6, 0, sl), pat(7, 0, kl), pat(5, 40, al)
                    tag = argon2.argon2(ty, 0x13, 1, 2, 19, pw, salt, key, aad, 32)
                    cases.append(([prog(ty, 0x13, 1, 2, 19, pw, salt, key, aad, 32)], [obs_of(tag)], None))
    ck.run(cases)
    ck.stats.states = len(cases)
    return ck.stats


def shard_setters(_, tier):
    ck = core.Checker(PROPERTY_ID)
    cases = [(["argon2_setter parallelism 0"], [{"prefix": "ERR:"}], None), (["argon2_setter parallelism 1"], ["OK"], None),
             (["argon2_setter parallelism %d" % (2 ** 24 - 1)], ["OK"], None), (["argon2_setter parallelism %d" % (2 ** 24)], [{"prefix": "ERR:"}], None),
             (["argon2_setter parallelism %d" % (2 ** 32 - 1)], [{"prefix": "ERR:"}], None),
             (["argon2_setter iterations 0"], [{"prefix": "ERR:"}], None), (["argon2_setter iterations 1"], ["OK"], None),
             (["argon2_setter iterations %d" % (2 ** 32 - 1)], ["OK"], None),
             (["argon2_setter version 16"], ["OK"], None), (["argon2_setter version 19"], ["OK"], None)]
    for v in (0, 1, 15, 17, 18, 20, 0x1300, 0x100013, 2 ** 32 - 1):
        cases.append((["argon2_setter version %d" % v], [{"prefix": "ERR:"}], None))
    cases.append((["argon2_setter memory_kb 8"], ["OK"], None))
    ck.run(cases)
    ck.stats.states = len(cases)
    return ck.stats


def shard_wide(ty, tier):
    """lane counts and pass counts beyond the main grid"""
    ck = core.Checker(PROPERTY_ID)
    cases = []
    for ver in (0x13, 0x10):
        for p in (6, 7, 8, 16):
            for m in (8 * p, 8 * p + 5):
                tag = argon2.argon2(ty, ver, 1, p, m, PW, SALT, b"", b"", 32)
                cases.append(([prog(ty, ver, 1, p, m, PW, SALT, b"", b"", 32)], [obs_of(tag)], None))
        for t in (5, 10):
            for (p, m) in ((1, 8), (2, 19), (3, 50)):
                tag = argon2.argon2(ty, ver, t, p, m, PW, SALT, KEY, AAD, 32)
                cases.append(([prog(ty, ver, t, p, m, PW, SALT, KEY, AAD, 32)], [obs_of(tag)], None))
    tag = argon2.argon2(ty, 0x13, 1, 2, 4096, PW, SALT, b"", b"", 32)
    cases.append(([prog(ty, 0x13, 1, 2, 4096, PW, SALT, b"", b"", 32)], [obs_of(tag)], None))
    ck.run(cases)
    ck.stats.states = len(cases)
    return ck.stats
