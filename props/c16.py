"""C16 - vectorised and portable code paths compute identical results."""
from mc import core, multi
from mc.patterns import pat, P, H, obs_of
from models import hashes, macs, selfcheck

PROPERTY_ID = "C16"
RULE = ("the same program set is executed by executors compiled for baseline x86-64 (SSE2), without SSE2 (-sse2: the portable engines as the crate itself selects them), +sse4.1, +avx, +avx2 and target-cpu=native, and (own workload only) +sse4.1 / native with overflow checks and debug assertions (every extension of the host CPU, here incl. AVX-512), every observation is compared with the reference "
        "model and the ordered transcripts of all builds must be identical shard by shard. Workload: SHA-224/256 with prefix chunk {0,1,63} bytes then one update of "
        "k blocks (k = 1..=20, +0/+1 trailing bytes) from a buffer at every byte offset 0..=31 (quick: offsets {0,1,4,8,16,31}, k in {1,3,4,5,8,9,12,20}), and two "
        "consecutive multi-block updates; BLAKE2b/s keyed/unkeyed x outlen {1,32,max} x lengths {0,1,B-1,B,B+1,2B,2B+1,5B} x offsets; the complete C03 grid (SSE2 "
        "contexts and the portable engine through the hook); HMAC, PBKDF2, scrypt and Argon2 spot programs; the BLAKE2 / cipher counter-crossing hook programs of C20; C01 shards for all variants (compiler-level differences); "
        "object placement: every hash context type created, cloned, fed and finalised (and every one-shot function called) with the stack pointer as it is and moved by 16 bytes and after filler heap allocations of several sizes, in an executor that runs without address-space randomisation (addresses seen are reported); "
        "counts are summed over the builds; distinct = program text")
ASSUMPTIONS = ["reference models as in C01, C03, C08, C10, C11", "only x86-64 feature sets the host CPU has are built; the aarch64 path is not buildable here"]

BUILDS = ["rel", "sse41", "avx", "avx2", "native", "nosse2"]


# vector feature sets together with checked arithmetic (a vector path that overflows or asserts only there): own shards only
CHK_BUILDS = ["sse41chk", "nativechk"]


def builds_needed(tier):
    return BUILDS + CHK_BUILDS


def bounds(tier):
    return {"builds": BUILDS + CHK_BUILDS + ["portable ChaCha engine (hook) inside each"], "sha256_blocks_per_call": "1..=40 at every offset" if tier == "thorough" else "1,3,4,5,8,9,12,20 at six offsets; every other count of 1..=33 at three offsets",
            "offsets": "0..=31" if tier == "thorough" else [0, 1, 4, 8, 16, 31]}


def validate_models(tier):
    hashes.self_check(False)
    selfcheck.check_stream()


def offsets(tier):
    return range(32) if tier == "thorough" else (0, 1, 4, 8, 16, 31)


def ks(tier):
    return range(1, 41) if tier == "thorough" else (1, 3, 4, 5, 8, 9, 12, 20)


def shards(tier):
    sh = []
    for b in BUILDS + CHK_BUILDS:
        for v in ("sha256", "sha224"):
            for pre in (0, 1, 63):
                sh.append(("shard_sha", (b, v, pre)))
        for which in ("b", "s"):
            sh.append(("shard_blake2", (b, which)))
        sh.append(("shard_spots", b))
        sh.append(("shard_counters", b))
        sh.append(("shard_placement", b))
    foreign = multi.foreign_jobs(["c03"], tier, BUILDS) + multi.foreign_jobs(["c01"], "quick", BUILDS, select=lambda mn, f, a: f != "shard_huge")
    sh += [("shard_foreign", j) for j in foreign]
    return sh


def _finish(ck, name, build):
    ck.stats.extra["transcripts"] = [(name, build, ck.transcript.hexdigest())]
    return ck.stats


def shard_sha(arg, tier):
    build, variant, pre = arg
    core.BUILD_OVERRIDE = build
    try:
        ck = core.Checker(PROPERTY_ID)
    finally:
        core.BUILD_OVERRIDE = None
    cases = []
    for kp in (5, 1):
        prefix = pat(kp, 0, pre)
        for k in ks(tier):
            for tail in (0, 1):
                n = 64 * k + tail
                body = pat(kp, 100, n)
                d = obs_of(hashes.digest(variant, prefix + body))
                for off in offsets(tier):
                    cases.append((["hnew s0 %s" % variant, "update s0 %s" % (P(kp, 0, pre) if pre else "h:"), "update_mut s0 @%d:%s" % (off, P(kp, 100, n)), "fin s0"],
                                  ["-", "-", "-", d], None))
        if tier != "thorough" and kp == 5:
            # the remaining block counts of 1..=20 (and 21..=33: three 8-way batches plus every tail) at three alignments
            for k in [k for k in range(1, 34) if k not in ks(tier)]:
                n = 64 * k + (k % 2)
                d = obs_of(hashes.digest(variant, prefix + pat(kp, 100, n)))
                for off in (0, 1, 31):
                    cases.append((["hnew s0 %s" % variant, "update s0 %s" % (P(kp, 0, pre) if pre else "h:"), "update_mut s0 @%d:%s" % (off, P(kp, 100, n)), "fin s0"],
                                  ["-", "-", "-", d], None))
        # two consecutive multi-block updates (chaining state produced by the vector path feeds the vector path)
        for k1, k2 in ((4, 4), (8, 1), (3, 9), (12, 8)):
            b1, b2 = pat(kp, 7, 64 * k1), pat(kp, 900, 64 * k2 + 5)
            d = obs_of(hashes.digest(variant, prefix + b1 + b2))
            for off in offsets(tier):
                cases.append((["hnew s0 %s" % variant, "update s0 %s" % (P(kp, 0, pre) if pre else "h:"), "update_mut s0 @%d:%s" % (off, P(kp, 7, 64 * k1)),
                               "update_mut s0 @%d:%s" % ((off + 13) % 32, P(kp, 900, 64 * k2 + 5)), "fin_reset s0"], ["-", "-", "-", "-", d], None))
    ck.run(cases)
    ck.stats.states = len(cases)
    return _finish(ck, "sha(%s,%d)" % (variant, pre), build)


def shard_blake2(arg, tier):
    build, which = arg
    core.BUILD_OVERRIDE = build
    try:
        ck = core.Checker(PROPERTY_ID)
    finally:
        core.BUILD_OVERRIDE = None
    B, mx = (128, 64) if which == "b" else (64, 32)
    kind = "b2bdyn" if which == "b" else "b2sdyn"
    cases = []
    for key in (b"", pat(6, 0, mx), pat(6, 0, 3)):
        for o in (1, 32, mx):
            for n in (0, 1, B - 1, B, B + 1, 2 * B, 2 * B + 1, 5 * B):
                d = obs_of(hashes.blake2(which, pat(5, 3, n), o, key))
                for off in offsets(tier):
                    new = "hnew s0 %s %d" % (kind, o) + ((" " + H(key)) if key else "")
                    cases.append(([new, "update_mut s0 @%d:%s" % (off, P(5, 3, n)), "fin s0"], ["-", "-", d], None))
    ck.run(cases)
    ck.stats.states = len(cases)
    return _finish(ck, "blake2(%s)" % which, build)


def shard_spots(build, tier):
    from models import argon2
    core.BUILD_OVERRIDE = build
    try:
        ck = core.Checker(PROPERTY_ID)
    finally:
        core.BUILD_OVERRIDE = None
    cases = []
    for kind in ("sha256", "sha224", "blake2b:64", "blake2s:32"):
        for kl in (0, 5, 70, 200):
            for ml in (0, 1, 64, 200, 1000):
                key, msg = pat(6, 0, kl), pat(5, 0, ml)
                cases.append((["mnew s0 hmac %s %s" % (kind, H(key)), "minput s0 @3:%s" % P(5, 0, ml), "mraw s0"], ["-", "-", obs_of(macs.hmac(kind, key, msg))], None))
    for c, dk in ((1, 32), (3, 33), (100, 65)):
        cases.append((["pbkdf2 sha256 %s %s %d %d" % (H(b"password"), H(b"salt"), c, dk)], [obs_of(macs.pbkdf2("sha256", b"password", b"salt", c, dk))], None))
    for (ln, r, p, dk) in ((1, 1, 1, 64), (4, 3, 2, 33), (6, 8, 1, 65), (10, 2, 1, 32)):
        cases.append((["scrypt %s %s %d %d %d %d" % (H(b"pw"), H(b"NaCl"), ln, r, p, dk)], [obs_of(macs.scrypt(b"pw", b"NaCl", ln, r, p, dk))], None))
    pw, salt = pat(5, 0, 16), pat(6, 0, 16)
    for ty in ("d", "i", "id"):
        for (t, p, m, tl) in ((1, 1, 8, 32), (2, 2, 19, 65), (1, 4, 64, 32), (3, 3, 24, 128)):
            tag = argon2.argon2(ty, 0x13, t, p, m, pw, salt, b"", b"", tl)
            cases.append((["argon2 %s 19 %d %d %d %s %s h: h: %d at" % (ty, t, p, m, H(pw), H(salt), tl)], [obs_of(tag)], None))
    ck.run(cases)
    ck.stats.states = len(cases)
    return _finish(ck, "spots", build)


def shard_counters(build, tier):
    """the counter-crossing hook programs of C20 (BLAKE2 byte counters next to 2^31, 2^32, 2^63, 2^64 and the high-word wrap; cipher
    block counters) on every vector build: the vector compressions take the counter words as lanes"""
    from . import c20
    core.BUILD_OVERRIDE = build
    try:
        ck = core.Checker(PROPERTY_ID)
    finally:
        core.BUILD_OVERRIDE = None
    cs = c20.counter_cases()
    ck.run(cs)
    ck.stats.states = len(cs)
    return _finish(ck, "counters", build)


PLACE_PREFIXES = ([], ["stk16"], ["heappad 40"], ["stk16", "heappad 40"], ["heappad 40", "heappad 40"], ["heappad 24"], ["heappad 8", "heappad 40", "heappad 72"])


def shard_placement(build, tier):
    """where the objects lie: every context type is created, cloned, fed and finalised with the stack pointer as it is and moved by 16
    bytes (op stk16: stack objects of alignment <= 16 change residue modulo 32), and after filler allocations of several sizes (heap
    objects move); the one-shot functions likewise. The executor runs without address-space randomisation, so each placement is the
    same in every process. The addresses (modulo 64) at which the context objects were seen are reported, not compared."""
    from .common import CTX
    core.BUILD_OVERRIDE = build
    try:
        ck = core.Checker(PROPERTY_ID)
    finally:
        core.BUILD_OVERRIDE = None
    cases = []
    for variant, (kind, oneshot, B, D) in CTX.items():
        for n in (0, 1, B + 1, 5 * B):
            d = obs_of(hashes.digest(variant, pat(5, 3, n)))
            data = P(5, 3, n) if n else "h:"
            for pre in PLACE_PREFIXES:
                cases.append((pre + ["hnew s0 %s" % " ".join(kind), "hwhere s0", "update_mut s0 @%d:%s" % (n % 7, data), "hclone s0 s1", "hwhere s1", "fin s0", "fin s1"],
                              ["-"] * len(pre) + ["-", None, "-", "-", None, d, d], {"w": (len(pre) + 1, len(pre) + 4)}))
                if oneshot:
                    cases.append((pre + ["hash %s %s" % (oneshot, data)], ["-"] * len(pre) + [d], None))
    for which, kind, mx, B in (("b", "b2bdyn", 64, 128), ("s", "b2sdyn", 32, 64)):
        for key in (b"", pat(6, 0, 3)):
            for n in (0, 1, B + 1, 5 * B):
                d = obs_of(hashes.blake2(which, pat(5, 3, n), mx, key))
                for pre in PLACE_PREFIXES:
                    new = "hnew s0 %s %d" % (kind, mx) + ((" " + H(key)) if key else "")
                    cases.append((pre + [new, "hwhere s0", "update_mut s0 %s" % (P(5, 3, n) if n else "h:"), "fin s0"], ["-"] * len(pre) + ["-", None, "-", d], {"w": (len(pre) + 1,)}))
    obs = ck.run(cases)
    seen = set()
    for (ops, exp, meta), o in zip(cases, obs):
        if meta and len(o) == len(ops):
            for i in meta["w"]:
                seen.add(o[i])
    ck.stats.states = len(cases)
    ck.stats.extra["context_addresses_mod64_seen"] = ["%s: %s" % (build, ",".join(sorted(seen, key=lambda x: (len(x), x))))]
    ck.stats.extra["transcripts"] = []
    return ck.stats


def shard_foreign(job, tier):
    t = "quick" if job[0] == "c01" else tier
    return multi.run_foreign(job, t, PROPERTY_ID)


def on_build_failure(fails, total):
    """the property quantifies over the instruction-set features the library is compiled for: a feature set the unchanged tree builds
    for and the tree under test does not is reported as a violation (the compiler log is the replay artefact), not as a machinery error"""
    import os
    rest = dict(fails)
    for b in ("sse41", "avx", "avx2", "native", "nosse2", "sse41chk", "nativechk"):
        if b in rest and "rel" not in fails:
            log = rest.pop(b)
            os.makedirs(core.REPLAY_DIR, exist_ok=True)
            path = os.path.join(core.REPLAY_DIR, "C16-build-%s.log" % b)
            open(path, "w").write(log)
            total.violation_count += 1
            total.violations.append({"property": PROPERTY_ID, "build": b, "program": [], "step": 0, "expected": "the crate builds with the %s feature set" % b,
                                     "observed": "BUILD-FAILED", "meta": {"log": path}, "note": log[-1500:]})
    return rest


def shards_after_build_failure(tier, fails):
    return []


def post(total, tier):
    multi.compare_transcripts(total, PROPERTY_ID)
