"""C08 - HMAC equals RFC 2104 for every supported digest, key and message."""
from mc import core
from mc.patterns import pat, P, H, obs_of
from models import macs, selfcheck

PROPERTY_ID = "C08"
RULE = ("programs Hmac::new(digest, key); input(chunk)*; raw_result | result().code() | output_bytes for all 16 fixed legacy digests plus BLAKE2b outlen "
        "{1,20,32,64} and BLAKE2s {1,16,32}: key length {0,1,B-1,B,B+1,2B+5} x 2 key patterns x message length {0,1,B-1,B,B+1,2B+3} x chunking "
        "(one call, 2-splits at {1,B-1,B,B+1}) and every sequence of <= 3 chunks over {0,1,B-1,B,B+1,2B+1} for two keys, every key length 0..=2B+5 (thorough: all digests, and every 4-chunk sequence); oracle = RFC 2104 over the "
        "reference hashes (equal to python's hmac module wherever hashlib has the digest); non-trivial = non-empty key or message"
        " Also: every key length 0..=2B+5 and every message length 0..=2B+9 for every digest; single calls of 5..20 whole blocks (-1/0/+1) and keys of 3..13 blocks; reset before any input / after abandoned input / after a result; Hmac built over digest objects with a past that were reset through their public interface (fed; fed and finalised; BLAKE2 created keyed or re-keyed, then reset); one 2^29-byte message for SHA-1, SHA-256, SHA-512, RIPEMD-160; the corpus again on the checked-arithmetic build and (SHA-256 / BLAKE2 digests) on the vector builds.")
ASSUMPTIONS = ["reference hashes as in C01", "RFC 2104 construction in python, cross-checked against the hmac module for 12 digests and RFC 4231 #2",
               "HMAC block size for SHA-3/Keccak is the sponge rate (what the legacy digest objects report, and what hashlib uses)"]

KINDS = ["sha1", "sha224", "sha256", "sha384", "sha512", "sha512_224", "sha512_256", "sha3_224", "sha3_256", "sha3_384", "sha3_512",
         "keccak224", "keccak256", "keccak384", "keccak512", "ripemd160",
         "blake2b:1", "blake2b:20", "blake2b:32", "blake2b:64", "blake2s:1", "blake2s:16", "blake2s:32"]


def builds_needed(tier):
    return ["rel"]


# Own corpus re-run on other builds of the crate (mc/core.py: extra builds). Every observation is compared with the same model.
def _vec(fname, kind):
    return fname != "shard_huge" and str(kind).startswith(("sha224", "sha256", "blake2"))


def extra_builds(tier):
    return [("relchk", None), ("sse41", _vec), ("avx", _vec), ("native", _vec), ("fe32", lambda f, a: f != "shard_huge")]



def bounds(tier):
    return {"digests": len(KINDS), "key_lengths": "0,1,B-1,B,B+1,2B+5", "message_lengths": "0,1,B-1,B,B+1,2B+3", "chunk_tree_depth": 4 if tier == "thorough" else 3, "every_key_length_0_to_2B+5": "all digests",
            "every_message_length": "0..=2B+9", "multi_block_calls": "5..20 blocks -1/0/+1; keys of 3..13 blocks", "reset_histories": True, "used_digest_objects": "reset / result+reset / b2key / b2rekey",
            "huge": "2^29-byte message for sha1, sha256, sha512, ripemd160"}


def validate_models(tier):
    selfcheck.check_macs()


def shards(tier):
    return [("shard_huge", k) for k in ("sha1", "sha256", "sha512", "ripemd160")] + [("shard_kind", k) for k in KINDS]


def shard_huge(kind, tier):
    """one message of 2^29 bytes: the inner hash's bit length passes 2^32"""
    import hmac as _hmac
    ck = core.Checker(PROPERTY_ID)
    clen, cnt = (1 << 26) + 13, 8
    key = pat(5, 0, 7)
    h = _hmac.new(key, digestmod=kind)
    chunk = b"\xff" * clen
    for _ in range(cnt):
        h.update(chunk)
    cases = [(["mnew s0 hmac %s %s" % (kind, P(5, 0, 7)), "minput_rep s0 %s %d" % (P(1, 0, clen), cnt), "mraw s0"], ["-", "-", obs_of(h.digest())], {"nt": True})]
    ck.run(cases, nontrivial=_nt)
    ck.stats.states = len(cases)
    return ck.stats


def _nt(ops, meta):
    return bool(meta and meta.get("nt"))


def shard_kind(kind, tier):
    ck = core.Checker(PROPERTY_ID)
    _, B, D = macs.kind_info(kind)
    cache = {}

    def mac(key, msg):
        r = cache.get((key, msg))
        if r is None:
            r = macs.hmac(kind, key, msg)
            cache[(key, msg)] = r
        return r

    cases = []
    keylens = (0, 1, B - 1, B, B + 1, 2 * B + 5)
    msglens = (0, 1, B - 1, B, B + 1, 2 * B + 3)
    for kp in (5, 1):
        for kl in keylens:
            key = pat(kp, 0, kl)
            new = "mnew s0 hmac %s %s" % (kind, P(kp, 0, kl) if kl else "h:")
            for ml in msglens:
                t = obs_of(mac(key, pat(6, 0, ml)))
                nt = {"nt": kl > 0 or ml > 0}
                cases.append(([new, "minput s0 %s" % P(6, 0, ml), "mraw s0"], ["-", "-", t], nt))
                cases.append(([new, "minput s0 %s" % P(6, 0, ml), "mresult s0", "moutbytes s0"], ["-", "-", t, str(D)], nt))
                for cut in (1, B - 1, B, B + 1):
                    if cut <= ml:
                        cases.append(([new, "minput s0 %s" % P(6, 0, cut), "minput s0 %s" % P(6, cut, ml - cut), "mraw s0"], ["-", "-", "-", t], nt))
    A = (0, 1, B - 1, B, B + 1, 2 * B + 1)
    for kp, kl in ((5, 7), (1, 2 * B + 5)):
        key = pat(kp, 0, kl)
        new = "mnew s0 hmac %s %s" % (kind, P(kp, 0, kl))
        for a in A:
            for b in A:
                for c in A:
                    t = obs_of(mac(key, pat(6, 0, a + b + c)))
                    cases.append(([new, "minput s0 %s" % P(6, 0, a), "minput s0 %s" % P(6, a, b), "minput s0 %s" % P(6, a + b, c), "mresult s0"],
                                  ["-", "-", "-", "-", t], {"nt": True}))
    # every key length across the pad / hash-the-key boundary (thorough: for every digest; quick: three digests)
    if True:
        for kl in range(0, 2 * B + 6):
            key = pat(7, 3, kl)
            new = "mnew s0 hmac %s %s" % (kind, P(7, 3, kl) if kl else "h:")
            for ml in ((0, 1, B + 1) if tier == "thorough" else (B + 1,)):
                t = obs_of(mac(key, pat(6, 0, ml)))
                cases.append(([new, "minput s0 %s" % (P(6, 0, ml) if ml else "h:"), "mraw s0"], ["-", "-", t], {"nt": True}))
    if tier == "thorough":
        # every sequence of 4 chunks for one key
        key = pat(5, 0, 7)
        new = "mnew s0 hmac %s %s" % (kind, P(5, 0, 7))
        for a in A:
            for b in A:
                for c in A:
                    for d in A:
                        t = obs_of(mac(key, pat(6, 0, a + b + c + d)))
                        cases.append(([new, "minput s0 %s" % P(6, 0, a), "minput s0 %s" % P(6, a, b), "minput s0 %s" % P(6, a + b, c),
                                       "minput s0 %s" % P(6, a + b + c, d), "mraw s0"], ["-", "-", "-", "-", "-", t], {"nt": True}))
    # every message length 0..=2B+9 in one call (padding / length-encoding classes of the inner hash, one key)
    key = pat(5, 0, 7)
    new = "mnew s0 hmac %s %s" % (kind, P(5, 0, 7))
    for ml in range(0, 2 * B + 10):
        t = obs_of(mac(key, pat(6, 0, ml)))
        cases.append(([new, "minput s0 %s" % (P(6, 0, ml) if ml else "h:"), "mraw s0"], ["-", "-", t], {"nt": True}))
    # multi-block single calls (5..20 whole blocks with -1/0/+1 tails, fresh or after one buffered byte) and keys of many blocks:
    # every batch size and tail size of a multi-block compression loop, through the inner hash, the key hash and the outer hash
    key = pat(5, 0, 7)
    new = "mnew s0 hmac %s %s" % (kind, P(5, 0, 7))
    for k in range(5, 21):
        for d in (-1, 0, 1):
            ml = k * B + d
            t = obs_of(mac(key, pat(6, 0, ml)))
            cases.append(([new, "minput s0 %s" % P(6, 0, ml), "mraw s0"], ["-", "-", t], {"nt": True}))
            t = obs_of(mac(key, pat(6, 0, ml + 1)))
            cases.append(([new, "minput s0 %s" % P(6, 0, 1), "minput s0 %s" % P(6, 1, ml), "mraw s0"], ["-", "-", "-", t], {"nt": True}))
    for k in range(3, 14):
        for d in (0, 10):
            kl = k * B + d
            t = obs_of(mac(pat(7, 1, kl), pat(6, 0, 3)))
            cases.append((["mnew s0 hmac %s %s" % (kind, P(7, 1, kl)), "minput s0 %s" % P(6, 0, 3), "mraw s0"], ["-", "-", t], {"nt": True}))
    # the object is re-keyed by reset at any point of its life (before any input, after abandoned input, after a result):
    # the next result is the HMAC of exactly the bytes fed since the reset
    for kp, kl in ((5, 7), (1, B), (7, 2 * B + 5)):
        key = pat(kp, 0, kl)
        new = "mnew s0 hmac %s %s" % (kind, P(kp, 0, kl))
        for ml in (0, 1, B - 1, B + 1):
            m2 = pat(6, 40, ml)
            a2 = P(6, 40, ml) if ml else "h:"
            t = obs_of(mac(key, m2))
            for pre in ([], ["minput s0 %s" % P(5, 9, 1)], ["minput s0 %s" % P(5, 9, B)], ["minput s0 %s" % P(5, 9, B + 3)]):
                cases.append(([new] + pre + ["mreset s0", "minput s0 %s" % a2, "mraw s0"], ["-"] + ["-"] * len(pre) + ["-", "-", t], {"nt": True}))
                cases.append(([new] + pre + ["mraw s0", "mreset s0", "minput s0 %s" % a2, "mresult s0", "mreset s0", "minput s0 %s" % a2, "mraw s0"],
                              ["-"] + ["-"] * len(pre) + [None, "-", "-", t, "-", "-", t], {"nt": True}))
    # the digest object handed to Hmac::new has a past but was reset through its public interface (fed and reset; fed, finalised and
    # reset; for BLAKE2 also: created keyed / re-keyed, then reset to the plain hash): it is a fresh digest, so HMAC is unchanged
    modes = ["reset", "result"] + (["b2key", "b2rekey"] if kind.startswith("blake2") else [])
    for mode in modes:
        for pl in (1, 7, B, B + 5):
            if mode.startswith("b2") and pl > (64 if kind.startswith("blake2b") else 32):
                continue
            for kp, kl in ((5, 7), (7, B + 9)):
                for ml in (0, 1, B + 1):
                    t = obs_of(mac(pat(kp, 0, kl), pat(6, 0, ml)))
                    cases.append((["mnew s0 hmac_used %s %s %s %s" % (kind, P(kp, 0, kl), P(4, 1, pl), mode), "minput s0 %s" % (P(6, 0, ml) if ml else "h:"), "mraw s0",
                                   "mreset s0", "minput s0 %s" % (P(6, 0, ml) if ml else "h:"), "mresult s0"], ["-", "-", t, "-", "-", t], {"nt": True}))
    ck.run(cases, nontrivial=_nt)
    ck.stats.states = len(cases) + 1
    return ck.stats
