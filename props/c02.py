"""C02 - hash contexts: any split, clone, reset or reuse gives the one-shot digest."""
from mc import core, explorer
from mc.patterns import pat, P, obs_of
from models import hashes
from .common import CTX, FIXED_VARIANTS, chunk_alphabet

PROPERTY_ID = "C02"
RULE = ("explicit-state BFS over histories of hash contexts; letters: update(l), update_mut(l) for l in {0,1,B-1,B,B+1,2B+1,...}, "
        "fork (clone), reset, finalize_reset, finalize and for BLAKE2 reset_with_key(k), finalize_reset_with_key(k); up to 2 live "
        "contexts; tree mode executes every letter sequence up to the depth bound, graph mode merges states on (model state, "
        "observed probe digests) and runs until the frontier is empty for <= 4B+1 bytes; in every state finalize(clone), "
        "finalize(clone+1 byte) and finalize(clone+B+1 bytes) must equal the reference digest of the bytes fed since the last "
        "reset; a case is non-trivial when at least one non-empty chunk was fed; distinct = distinct program text"
        " Also: a big-chunk system (5..20 whole blocks per call, every remainder size, depth 2/3) and BLAKE2 contexts whose byte counters were preset next to / beyond their word boundaries (hook) followed by every kind of reset; the corpus again on the checked-arithmetic build, the graph / big-chunk / counter shards of SHA-256 and BLAKE2 on the vector builds."
        " Interference: one history per object type with the programs of every other object type (25 bystander programs: hash contexts, one-shots, MACs, legacy digests, stream ciphers, DRG, AEAD, KDFs, Argon2, X25519, Ed25519) woven between its steps, round-robin and whole-program-after-every-step."
        " Many calls: 66000 one-byte / three-byte / empty updates on one context of every variant, then reuse.")
ASSUMPTIONS = ["hashlib / validated Keccak model as in C01",
               "chunk content is a position-determined byte pattern (content alphabet, not content space)",
               "graph mode merges two histories only when the model state is equal and the probe digests of the live object are equal"]

KEYS = {"b": [b"", pat(6, 0, 1), pat(6, 0, 64)], "s": [b"", pat(6, 0, 1), pat(6, 0, 32)]}

_CACHE = {}


def builds_needed(tier):
    return ["rel"]


# Own corpus re-run on other builds of the crate (mc/core.py: extra builds). Every observation is compared with the same model.
def _vec(fname, i):
    # the vector paths are block functions: the graph shards (every partition of 4B+1 bytes) and the counter shard exercise them fully
    return fname == "shard_counter_reuse" or (fname in ("shard_graph", "shard_big") and specs()[i][0].startswith(("sha224", "sha256", "blake2")))


def extra_builds(tier):
    return [("relchk", None), ("sse41", _vec), ("avx", _vec), ("native", _vec), ("fe32", None)]



def bounds(tier):
    return {"tree_depth": 4 if tier == "thorough" else 3, "graph_bytes": "4B+1", "live_contexts": 2,
            "graph_resets": 2 if tier == "thorough" else 1,
            "big_chunk_tree_depth": 3 if tier == "thorough" else 2, "big_chunk_blocks": "5..20 whole blocks per call with tails -1/0/+1/mid",
            "counter_preset_reuse_histories": "BLAKE2 byte counters preset next to / beyond their word boundaries, then every kind of reset"}


def validate_models(tier):
    hashes.self_check(False)


def specs():
    """context types explored: (name, hnew tokens, B, model(key, data), blake2 which or None, initial key)"""
    out = []
    for v in FIXED_VARIANTS:
        kind, _, B, D = CTX[v]
        which = "b" if v.startswith("blake2b") else ("s" if v.startswith("blake2s") else None)
        out.append((v, kind, B, which, D, b""))
    for bits in (8, 9, 160, 255):
        out.append(("blake2b<%d>" % bits, ["b2b", str(bits)], 128, "b", (bits + 7) // 8, b""))
        out.append(("blake2s<%d>" % bits, ["b2s", str(bits)], 64, "s", (bits + 7) // 8, b""))
    out.append(("blake2b-dyn33", ["b2bdyn", "33"], 128, "b", 33, b""))
    out.append(("blake2b-dyn64-keyed", ["b2bdyn", "64"], 128, "b", 64, pat(6, 0, 64)))
    out.append(("blake2b<256>-keyed", ["b2b", "256"], 128, "b", 32, pat(6, 0, 7)))
    out.append(("blake2s-dyn17", ["b2sdyn", "17"], 64, "s", 17, b""))
    out.append(("blake2s-dyn32-keyed", ["b2sdyn", "32"], 64, "s", 32, pat(6, 0, 32)))
    out.append(("blake2s<224>-keyed", ["b2s", "224"], 64, "s", 28, pat(6, 0, 5)))
    return out


class HashSystem:
    def __init__(self, spec, tier, graph=False):
        self.name, self.kind, self.B, self.which, self.D, self.key0 = spec
        self.variant = self.name
        self.graph = graph
        self.tier = tier
        self.L = chunk_alphabet(self.B, tier)
        self.max_bytes = 4 * self.B + 1
        self.max_resets = 2 if tier == "thorough" else 1

    # ---- model
    def H(self, key, data):
        ck = (self.name, key, data)
        r = _CACHE.get(ck)
        if r is None:
            if self.which:
                r = hashes.blake2(self.which, data, self.D, key)
            else:
                r = hashes.digest(self.variant, data)
            if len(_CACHE) > 400000:
                _CACHE.clear()
            _CACHE[ck] = r
        return r

    def chunk(self, ctx, l):
        key, epoch, data = ctx
        off = epoch * 997 + len(data)
        return pat(5, off, l), P(5, off, l)

    def initial(self):
        new = "hnew s0 %s" % " ".join(self.kind)
        if self.key0:
            new += " h:" + self.key0.hex()
        return ((self.key0, 0, b""), None), [new], ["-"]

    def terminal(self, m):
        return m[0] is None and m[1] is None

    def letters(self, m, depth):
        out = []
        for i in (0, 1):
            c = m[i]
            if c is None:
                continue
            key, epoch, data = c
            for l in self.L:
                if self.graph and len(data) + l > self.max_bytes:
                    continue
                out.append(("u", i, l))
                out.append(("m", i, l))
            if not self.graph or epoch < self.max_resets:
                out.append(("r", i))
                out.append(("fr", i))
            if not self.graph:
                out.append(("f", i))
            if self.which and (not self.graph or epoch < self.max_resets):
                for ki in range(3):
                    out.append(("rk", i, ki))
                    out.append(("frk", i, ki))
        if not self.graph and m[0] is not None and m[1] is None and depth >= 0:
            out.append(("k",))
        return out

    def step(self, m, letter):
        m = list(m)
        op = letter[0]
        if op == "k":
            m[1] = m[0]
            return tuple(m), ["hclone s0 s1"], ["-"]
        i = letter[1]
        key, epoch, data = m[i]
        s = "s%d" % i
        if op in ("u", "m"):
            b, arg = self.chunk(m[i], letter[2])
            m[i] = (key, epoch, data + b)
            return tuple(m), ["%s %s %s" % ("update" if op == "u" else "update_mut", s, arg)], ["-"]
        if op == "r":
            m[i] = (b"", epoch + 1, b"")
            return tuple(m), ["hreset %s" % s], ["-"]
        if op == "fr":
            d = self.H(key, data)
            m[i] = (b"", epoch + 1, b"")
            return tuple(m), ["fin_reset %s" % s], [obs_of(d)]
        if op == "f":
            d = self.H(key, data)
            m[i] = None
            return tuple(m), ["fin %s" % s], [obs_of(d)]
        k = KEYS[self.which][letter[2]]
        karg = "h:" + k.hex()
        if op == "rk":
            m[i] = (k, epoch + 1, b"")
            return tuple(m), ["hreset_key %s %s" % (s, karg)], ["-"]
        if op == "frk":
            d = self.H(key, data)
            m[i] = (k, epoch + 1, b"")
            return tuple(m), ["fin_reset_key %s %s" % (s, karg)], [obs_of(d)]
        raise ValueError(letter)

    def probes(self, m):
        ops, exp = [], []
        n = self.B + 1
        for i in (0, 1):
            c = m[i]
            if c is None:
                continue
            key, epoch, data = c
            a = self.H(key, data)
            b = self.H(key, data + b"\x5a")
            cc = self.H(key, data + pat(6, 0, n))
            ops.append("hprobe s%d %d" % (i, n))
            exp.append("%s.%s.%s" % (obs_of(a), obs_of(b), obs_of(cc)))
        return ops, exp

    def key(self, m):
        return tuple(None if c is None else (c[0], c[1], len(c[2])) for c in m)


class BigChunkSystem(HashSystem):
    """multi-block single calls: 5..20 whole blocks (with 0 / +-1 / odd tails) per update, after a short prefix or not, so that
    every batch size of a multi-block compression loop and every tail size is driven with every buffer fill; letters u/m over the big
    alphabet plus 1 and B-1, finalize_reset to chain a second message onto the same context"""

    def __init__(self, spec, tier):
        HashSystem.__init__(self, spec, tier, graph=False)
        B = self.B
        self.L = [1, B - 1, 5 * B, 6 * B + 1, 7 * B - 1, 9 * B, 10 * B + 3, 11 * B, 13 * B + B // 2, 14 * B, 15 * B - 1, 17 * B, 19 * B + 1, 20 * B]

    def letters(self, m, depth):
        out = []
        for l in self.L:
            out.append(("u", 0, l))
            out.append(("m", 0, l))
        out.append(("fr", 0))
        return out


def _nontrivial(ops, meta):
    for o in ops:
        if o.startswith("update") and not o.endswith(":0"):
            return True
    return False


def shards(tier):
    sp = specs()
    return [("shard_tree", i) for i in range(len(sp))] + [("shard_graph", i) for i in range(len(sp))] + [("shard_many_calls", k) for k in range(6)] + [("shard_counter_reuse", None), ("shard_interference", None)] + [("shard_big", i) for i in range(len(sp))]


def shard_big(i, tier):
    spec = specs()[i]
    ck = core.Checker(PROPERTY_ID)
    real = ck.run
    ck.run = lambda cases, nontrivial=True, count_trace=True: real(cases, nontrivial=_nontrivial, count_trace=count_trace)
    explorer.explore(BigChunkSystem(spec, tier), ck, "tree", 3 if tier == "thorough" else 2)
    return ck.stats


def own_programs():
    """one reuse history per variant (feed, clone, finalize-and-reset, feed again, finalize both), with model digests"""
    from .common import CTX
    out = []
    for variant, (kind, oneshot, B, D) in CTX.items():
        a, b = pat(5, 0, B + 3), pat(5, 9, 2 * B - 1)
        out.append((["hnew s0 %s" % " ".join(kind), "update_mut s0 %s" % P(5, 0, B + 3), "hclone s0 s1", "fin_reset s0", "update_mut s0 %s" % P(5, 9, 2 * B - 1),
                     "update_mut s1 %s" % P(5, 9, 2 * B - 1), "fin s0", "fin s1"],
                    ["-", "-", "-", obs_of(hashes.digest(variant, a)), "-", "-", obs_of(hashes.digest(variant, b)), obs_of(hashes.digest(variant, a + b))], None))
    return out


def shard_interference(_, tier):
    """the reuse history of every variant with the programs of every other object type (props/common.py: bystanders) woven between its
    steps, two ways: a context's answers must not depend on which other objects exist or were used in between"""
    from .common import interference_cases
    ck = core.Checker(PROPERTY_ID)
    cs = interference_cases(own_programs())
    ck.run(cs, nontrivial=lambda ops, meta: True)
    ck.stats.states += len(cs)
    return ck.stats


MANY = 66000


def shard_many_calls(part, tier):
    """very many calls on one context: 66000 one-byte updates (more than 2^16 calls), 66000 empty updates before, between and after real
    input, 66000 three-byte updates; then finalize-and-reset and a short second message"""
    from .common import CTX
    ck = core.Checker(PROPERTY_ID)
    cases = []
    for variant, (kind, oneshot, B, D) in list(CTX.items())[part::6]:
        new = "hnew s0 %s" % " ".join(kind)
        one, three = pat(5, 0, 1), pat(5, 0, 3)
        tail = pat(5, 9, 3)
        dt = obs_of(hashes.digest(variant, tail))
        cases.append(([new, "update_rep s0 %s %d" % (P(5, 0, 1), MANY), "fin_reset s0", "update_mut s0 %s" % P(5, 9, 3), "fin s0"],
                      ["-", "-", obs_of(hashes.digest(variant, one * MANY)), "-", dt], None))
        cases.append(([new, "update_rep s0 %s %d" % (P(5, 0, 3), MANY), "fin_reset s0", "update_mut s0 %s" % P(5, 9, 3), "fin s0"],
                      ["-", "-", obs_of(hashes.digest(variant, three * MANY)), "-", dt], None))
        cases.append(([new, "update_rep s0 h: %d" % MANY, "update_mut s0 %s" % P(5, 0, B + 1), "update_rep s0 h: %d" % MANY, "update_mut s0 %s" % P(5, 9, 3), "update_rep s0 h: 300", "fin s0"],
                      ["-", "-", "-", "-", "-", "-", obs_of(hashes.digest(variant, pat(5, 0, B + 1) + tail))], None))
    ck.run(cases, nontrivial=lambda ops, meta: True)
    ck.stats.states += len(cases)
    return ck.stats


def shard_counter_reuse(_, tier):
    """reuse after reset / finalize_reset / reset_with_key of BLAKE2 contexts whose byte counter words were preset (hook) next to and
    beyond their word boundaries: the state left by 4 GiB+ of input must not survive a reset"""
    from props import c20
    ck = core.Checker(PROPERTY_ID)
    cs = c20.blake2_counter_cases()
    ck.run(cs)
    ck.stats.states += len(cs)
    return ck.stats


def shard_tree(i, tier):
    spec = specs()[i]
    ck = core.Checker(PROPERTY_ID)
    real = ck.run
    ck.run = lambda cases, nontrivial=True, count_trace=True: real(cases, nontrivial=_nontrivial, count_trace=count_trace)
    sysm = HashSystem(spec, tier, graph=False)
    depth = 4 if tier == "thorough" else 3
    if tier == "thorough" and spec[0].startswith(("keccak",)):
        pass
    explorer.explore(sysm, ck, mode="tree", max_depth=depth)
    ck.stats.extra["tree_systems"] = 1
    return ck.stats


def shard_graph(i, tier):
    spec = specs()[i]
    ck = core.Checker(PROPERTY_ID)
    real = ck.run
    ck.run = lambda cases, nontrivial=True, count_trace=True: real(cases, nontrivial=_nontrivial, count_trace=count_trace)
    sysm = HashSystem(spec, tier, graph=True)
    n = explorer.explore(sysm, ck, mode="graph", max_depth=100000)
    ck.stats.extra["graph_systems"] = 1
    ck.stats.extra["graph_states"] = n
    return ck.stats
