"""C07 - AEAD decryption accepts a message only if its tag is the correct one."""
from mc import core
from mc.patterns import pat, P, H, obs_of
from models import poly, selfcheck

PROPERTY_ID = "C07"
RULE = ("for every base tuple (key length x AAD length x ciphertext length): the valid tuple, every single-bit flip of the tag (128), every pair of tag bits (8128, on the base shapes), equal byte deltas in every pair of tag bytes, swapped/rotated/reversed/complemented tags, every single-bit flip of the nonce (96), "
        "of the key (all bits), every bit of ciphertext and AAD when <= 17 bytes else all bits of the first, last and 16-byte-boundary bytes, "
        "truncation/extension by one byte, moving a byte across the AAD/ciphertext boundary in both directions, swapping AAD and ciphertext, zero tag, "
        "tag of the swapped-length tuple; each case is decided by the one-shot decryptor and by the incremental decryptor in three chunkings (halves continuing on clones; an odd piece, a 16-multiple piece, the rest) (the split one continuing on clones taken in the AAD phase and in the data phase); the "
        "expected verdict is computed: accept iff supplied tag == model tag of exactly the supplied inputs; non-trivial = mutated case; distinct = program text"
        " Also: the split incremental interface continues on clones taken in the AAD phase and in the data phase; component shards as in C06; the corpus again on the checked-arithmetic and native builds."
        " Very large total: a ciphertext of 2^32 + 64 zero bytes through one decryption context (64 in-place calls): the RFC tag accepted, the tag with the length modulo 2^32 and the tag of a shorter ciphertext refused (closed-form Poly1305 of a run of identical blocks).")
ASSUMPTIONS = ["python RFC 8439 AEAD model as in C06", "ciphertext/AAD content from the pattern alphabet; bit positions beyond the first/last/boundary bytes of long inputs are not flipped"]


def builds_needed(tier):
    return ["rel"]


# Own corpus re-run on other builds of the crate (mc/core.py: extra builds). Every observation is compared with the same model.
def extra_builds(tier):
    light = lambda f, a: f != "shard_huge"          # the 4 GiB ciphertext: default and checked-arithmetic builds only
    return [("relchk", None), ("native", light), ("fe32", light), ("nosse2", light)]



def bounds(tier):
    return {"shapes": "{0,1,16,17,64}^2" + (" + {15,63,65,257} crosses" if tier == "thorough" else ""), "tag_bits": 128, "nonce_bits": 96,
            "key_bits": "all", "interfaces": ["one-shot", "incremental whole", "incremental halves on clones", "incremental odd + 16-multiple + rest"]}


def validate_models(tier):
    selfcheck.check_poly()


def _own_shards(tier):
    base = (0, 1, 16, 17, 64)
    sh = []
    for kl in (32, 16):
        for al in base:
            sh.append(("shard_shape", (kl, al, base)))
    if tier == "thorough":
        for kl in (32, 16):
            for al in (15, 63, 65, 257):
                sh.append(("shard_shape", (kl, al, (0, 15, 63, 65, 257))))
    return sh


def flips(data, allbits_upto=17):
    n = len(data)
    if n <= allbits_upto:
        pos = range(n)
    else:
        s = {0, n - 1}
        for b in range(16, n, 16):
            s.add(b - 1)
            s.add(b)
        pos = sorted(x for x in s if 0 <= x < n)
    for p in pos:
        for bit in range(8):
            d = bytearray(data)
            d[p] ^= 1 << bit
            yield bytes(d)


def programs(kl, key, nonce, aad, ct, tag):
    """the same decision through three interfaces; returns list of (ops, verdict position, kind)"""
    new1 = "aead_new s0 20 %s %s %s" % (H(key), H(nonce), H(aad))
    out = [([new1, "aead_dec s0 %s %s" % (H(ct), H(tag))], "oneshot")]
    inc = ["actx_new s0 20 %s %s" % (H(key), H(nonce)), "actx_aad s0 %s" % H(aad), "actx_todec s0", "adec s0 %s" % H(ct), "adec_fin s0 %s" % H(tag)]
    out.append((inc, "inc"))
    a2, c2 = len(aad) // 2, (len(ct) + 1) // 2
    # split AAD and ciphertext, continuing on clones taken in the AAD phase and in the data phase (a clone continues identically)
    inc2 = ["actx_new s0 20 %s %s" % (H(key), H(nonce)), "actx_aad s0 %s" % H(aad[:a2]), "aclone s0 s1", "actx_aad s1 %s" % H(aad[a2:]), "actx_todec s1",
            "adec_mut s1 %s" % H(ct[:c2]), "aclone s1 s2", "adec_mut s2 %s" % H(ct[c2:]), "adec_fin s2 %s" % H(tag)]
    out.append((inc2, "inc2"))
    # an odd first piece followed by a piece that is a multiple of 16 (and of 64) bytes, then the rest: pieces that are "aligned" in length
    # while the running byte count is not
    a1 = min(1, len(aad))
    a2 = a1 + 16 * ((len(aad) - a1) // 16)
    c1 = min(3, len(ct))
    c2 = c1 + 16 * ((len(ct) - c1) // 16)
    inc3 = ["actx_new s0 20 %s %s" % (H(key), H(nonce)), "actx_aad s0 %s" % H(aad[:a1]), "actx_aad s0 %s" % H(aad[a1:a2]), "actx_aad s0 %s" % H(aad[a2:]), "actx_todec s0",
            "adec s0 %s" % H(ct[:c1]), "adec_mut s0 %s" % H(ct[c1:c2]), "adec s0 %s" % H(ct[c2:]), "adec_fin s0 %s" % H(tag)]
    out.append((inc3, "inc3"))
    return out


def shard_shape(arg, tier):
    kl, al, ctlens = arg
    ck = core.Checker(PROPERTY_ID)
    key = pat(6, 2, kl)
    nonce = pat(7, 5, 12)
    aad = pat(2, 7, al)
    cases = []
    tagcache = {}

    def model_tag(k, n, a, c):
        t = tagcache.get((k, n, a, c))
        if t is None:
            t = poly.aead_tag(k, n, a, c, 20)
            tagcache[(k, n, a, c)] = t
        return t

    def add(k, n, a, c, t, mutated):
        accept = model_tag(k, n, a, c) == t
        for ops, kind in programs(kl, k, n, a, c, t):
            exp = [None] * (len(ops) - 1)
            if kind == "oneshot":
                if accept:
                    exp.append("T." + obs_of(poly.aead_decrypt_plain(k, n, c, 20)))
                else:
                    exp.append({"prefix": "F."})
            else:
                exp.append("T" if accept else "F")
            cases.append((ops, exp, {"mut": mutated}))

    for cl in ctlens:
        pt = pat(5, 1, cl)
        ct, tag = poly.aead_encrypt(key, nonce, aad, pt, 20)
        add(key, nonce, aad, ct, tag, False)
        # tag: every bit
        for t2 in flips(tag, 16):
            add(key, nonce, aad, ct, t2, True)
        add(key, nonce, aad, ct, bytes(16), True)
        # tag: structured multi-position differences (a comparison that folds or accumulates could let them cancel): every pair of
        # bits on two base shapes, otherwise equal deltas in two bytes at every distance, swapped / rotated / reversed / complemented tags
        if cl in (ctlens[0], ctlens[-1]) and al in (0, 17, 63):
            for i in range(128):
                for j in range(i + 1, 128):
                    t2 = bytearray(tag)
                    t2[i // 8] ^= 1 << (i % 8)
                    t2[j // 8] ^= 1 << (j % 8)
                    add(key, nonce, aad, ct, bytes(t2), True)
        for i in range(16):
            for j in range(i + 1, 16):
                for delta in (0x01, 0x80, 0xff):
                    t2 = bytearray(tag)
                    t2[i] ^= delta
                    t2[j] ^= delta
                    add(key, nonce, aad, ct, bytes(t2), True)
                t2 = bytearray(tag)
                t2[i] = (t2[i] + 1) & 0xff
                t2[j] = (t2[j] - 1) & 0xff
                add(key, nonce, aad, ct, bytes(t2), True)
        for t2 in (tag[8:] + tag[:8], tag[1:] + tag[:1], tag[::-1], bytes(x ^ 0xff for x in tag), tag[:8] + tag[:8], tag[:15] + b"\x00"):
            if t2 != tag:
                add(key, nonce, aad, ct, t2, True)
        # nonce, key: every bit
        for n2 in flips(nonce, 12):
            add(key, n2, aad, ct, tag, True)
        for k2 in flips(key, 32):
            add(k2, nonce, aad, ct, tag, True)
        # ciphertext and AAD bits
        for c2 in flips(ct):
            add(key, nonce, aad, c2, tag, True)
        for a2 in flips(aad):
            add(key, nonce, a2, ct, tag, True)
        # truncation / extension
        if ct:
            add(key, nonce, aad, ct[:-1], tag, True)
            add(key, nonce, aad, ct[1:], tag, True)
        add(key, nonce, aad, ct + b"\x00", tag, True)
        if aad:
            add(key, nonce, aad[:-1], ct, tag, True)
        add(key, nonce, aad + b"\x00", ct, tag, True)
        # moving the boundary: last AAD byte becomes first ciphertext byte and vice versa
        if aad:
            add(key, nonce, aad[:-1], aad[-1:] + ct, tag, True)
        if ct:
            add(key, nonce, aad + ct[:1], ct[1:], tag, True)
        # swapping AAD and ciphertext; tag computed for the swapped tuple presented with the original order
        if aad != ct:
            add(key, nonce, ct, aad, tag, True)
            add(key, nonce, aad, ct, model_tag(key, nonce, ct, aad), True)
        # tag of the same bytes with the two lengths exchanged cannot be produced by the API; the nearest structured
        # forgery is the tag of (aad||ct split elsewhere): covered by the boundary moves above
    ck.run(cases, nontrivial=lambda ops, meta: bool(meta and meta.get("mut")))
    ck.stats.states = len(cases) + 1
    return ck.stats


def shards(tier):
    from props import c05
    # the AEAD tag is a Poly1305 tag under a one-time key the caller cannot choose: the rare accumulator states of the MAC
    # (limb carries, the 2^130 wrap, the final conditional subtraction) are therefore driven on the MAC directly, as a component
    sh = [("shard_huge", r) for r in ((20, 8, 12) if tier == "thorough" else (20,))] + _own_shards(tier) + [("shard_poly_component", ("shard_limbs", i)) for i in range(c05.NLIMB)] + [("shard_poly_component", ("shard_crafted", None))]
    # likewise the cipher half: block counters beyond the first few blocks (a message of 4 MiB and more) are reached by seek on the
    # same ChaCha context type the AEAD drives
    sh += [("shard_chacha_component", ("shard_counterbits", ("chacha", 20))), ("shard_chacha_component", ("shard_seekhist", 20))]
    return sh


def shard_huge(rounds, tier):
    """a ciphertext of 2^32 + 64 bytes through one decryption context (the byte count that goes into the tag passes 2^32), fed as 64
    in-place calls of 2^26 + 1 zero bytes: the RFC 8439 tag is accepted, the tag that carries the length modulo 2^32 and the tag of
    the ciphertext one call short are refused. The expected tags come from the closed form for a run of identical Poly1305 blocks
    (models/poly.py: poly1305_parts, checked against the block-by-block model on short runs)."""
    ck = core.Checker(PROPERTY_ID)
    key, nonce, aad = pat(6, 2, 32), pat(7, 5, 12), pat(2, 7, 13)
    chunk, cnt = (1 << 26) + 1, 64
    total = chunk * cnt
    for n in (0, 1, 15, 16, 17, 100, 4101):
        assert poly.aead_tag(key, nonce, aad, bytes(n), rounds) == poly.aead_tag_zero_ciphertext(key, nonce, aad, n, rounds)
    good = poly.aead_tag_zero_ciphertext(key, nonce, aad, total, rounds)
    wrapped = poly.aead_tag_zero_ciphertext(key, nonce, aad, total, rounds, claimed_len=total % (1 << 32))
    short = poly.aead_tag_zero_ciphertext(key, nonce, aad, total - chunk, rounds)
    ops = ["actx_new s0 %d %s %s" % (rounds, P(6, 2, 32), P(7, 5, 12)), "actx_aad s0 %s" % P(2, 7, 13), "actx_todec s0",
           "adec_rep s0 p:0:0:%d %d" % (chunk, cnt - 1), "aclone s0 s3", "adec_rep s0 p:0:0:%d 1" % chunk, "aclone s0 s1", "aclone s0 s2",
           "adec_fin s0 %s" % H(good), "adec_fin s1 %s" % H(wrapped), "adec_fin s2 %s" % H(short), "adec_fin s3 %s" % H(short)]
    ck.run([(ops, ["-"] * 8 + ["T", "F", "F", "T"], {"mut": True})], nontrivial=lambda o, m: True)
    ck.stats.states = 1
    return ck.stats


def shard_chacha_component(arg, tier):
    from mc import multi
    return multi.run_component("c03", arg[0], arg[1], tier, PROPERTY_ID)


def shard_poly_component(arg, tier):
    from mc import multi
    return multi.run_component("c05", arg[0], arg[1], tier, PROPERTY_ID)
