"""C17 - the 32-bit and 64-bit curve backends are observationally equivalent."""
from mc import core, multi

PROPERTY_ID = "C17"
RULE = ("the complete case sets of C12, C13, C14 and C15 (same tier) are executed through the default executor and through the executor built with "
        "--features force-32bits (crate lints in force); every observation of both is compared with the python models and the ordered transcripts "
        "(program text + observations) of both builds must be identical shard by shard; failure of the force-32bits configuration to compile is a "
        "violation; counts are summed over both builds; distinct = program text")
ASSUMPTIONS = ["as C12-C15", "only the feature-forced 32-bit backend on x86-64 is built; a real 32-bit target (arm) is not available in the sandbox"]

MODS = ["c12", "c13", "c14", "c15"]


def builds_needed(tier):
    return ["rel", "fe32"]


def bounds(tier):
    return {"workload": "all shards of C12-C15 at tier %s" % tier, "builds": ["rel", "fe32"]}


def validate_models(tier):
    from models import selfcheck
    selfcheck.check_curve()


def on_build_failure(fails, total):
    """force-32bits not compiling is a violation of 'the library compiles'"""
    import os
    rest = dict(fails)
    if "fe32" in rest:
        log = rest.pop("fe32")
        os.makedirs(core.REPLAY_DIR, exist_ok=True)
        path = os.path.join(core.REPLAY_DIR, "C17-build.log")
        open(path, "w").write(log)
        total.violation_count += 1
        total.violations.append({"property": PROPERTY_ID, "build": "fe32", "program": [], "step": 0, "expected": "cargo build --features force-32bits succeeds",
                                 "observed": "BUILD-FAILED", "meta": {"log": path}, "note": log[-1500:]})
    return rest


def shards_after_build_failure(tier, fails):
    return []


def shards(tier):
    return [("shard", j) for j in multi.foreign_jobs(MODS, tier, ["rel", "fe32"])]


def shard(job, tier):
    return multi.run_foreign(job, tier, PROPERTY_ID)


def post(total, tier):
    multi.compare_transcripts(total, PROPERTY_ID)
