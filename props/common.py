"""Shared tables for the property modules."""
from models import hashes
from mc.patterns import pat, P, H, obs_of

# new-API hash contexts: variant name -> (hnew kind tokens, one-shot function name or None, block bytes, digest bytes)
CTX = {}
for _n, (_b, _d) in hashes.FIXED.items():
    CTX[_n] = ([_n], None if _n in ("sha512_224", "sha512_256") else _n, _b, _d)
for _bits in (224, 256, 384, 512):
    CTX["blake2b_%d" % _bits] = (["b2b", str(_bits)], "blake2b_%d" % _bits, 128, _bits // 8)
for _bits in (224, 256):
    CTX["blake2s_%d" % _bits] = (["b2s", str(_bits)], "blake2s_%d" % _bits, 64, _bits // 8)

FIXED_VARIANTS = list(CTX.keys())      # 22 variants with a fixed-size context type

# BLAKE2 Context<BITS> instantiations that exist in the executor (legal ones)
B2B_BITS = (8, 9, 160, 224, 255, 256, 384, 505, 512)
B2S_BITS = (8, 9, 160, 224, 255, 256)


def model_digest(variant, msg):
    return hashes.digest(variant, msg)


def chunk_alphabet(B, tier):
    base = [0, 1, B - 1, B, B + 1, 2 * B + 1]
    if tier == "thorough":
        base += [2, 2 * B, 3 * B - 1]
    return base


# ---- interference between objects ------------------------------------------------------------------------------------------------
# Programs of every other object type (slots s8..s11; their own answers are not constrained here - each type is the constrained
# "A" side in its own property). They are woven between the steps of a property's own programs: what one object does must not
# depend on which other objects exist or were used in between (shared statics, caches, state leaking from one object to the next).
def bystanders():
    from mc.patterns import P, H
    k32, k16, n12, n8, n24 = P(6, 9, 32), P(6, 9, 16), P(7, 9, 12), P(7, 9, 8), P(7, 9, 24)
    pool = {
        "sha1": ["hnew s8 sha1", "update_mut s8 %s" % P(4, 0, 70), "hclone s8 s9", "fin_reset s8", "fin s9"],
        "sha256": ["hnew s8 sha256", "update_mut s8 %s" % P(4, 0, 200), "hclone s8 s9", "fin_reset s8", "fin s9"],
        "sha512": ["hnew s8 sha512", "update_mut s8 %s" % P(4, 0, 300), "hclone s8 s9", "fin_reset s8", "fin s9"],
        "sha3": ["hnew s8 sha3_256", "update_mut s8 %s" % P(4, 0, 140), "hclone s8 s9", "fin_reset s8", "fin s9"],
        "keccak": ["hnew s8 keccak512", "update_mut s8 %s" % P(4, 0, 75), "fin s8"],
        "ripemd160": ["hnew s8 ripemd160", "update_mut s8 %s" % P(4, 0, 70), "fin_reset s8", "update_mut s8 %s" % P(4, 0, 3), "fin s8"],
        "blake2b": ["hnew s8 b2bdyn 64 %s" % H(b"key"), "update_mut s8 %s" % P(4, 0, 260), "hclone s8 s9", "fin_reset s8", "fin s9"],
        "blake2s": ["hnew s8 b2sdyn 32", "update_mut s8 %s" % P(4, 0, 130), "fin_reset s8", "update_mut s8 %s" % P(4, 0, 3), "fin s8"],
        "oneshot": ["hash sha256 %s" % P(4, 0, 70), "hash sha512 %s" % P(4, 0, 70), "hash blake2b_512 %s" % P(4, 0, 70), "hash sha3_256 %s" % P(4, 0, 70)],
        "hmac": ["mnew s8 hmac sha256 %s" % P(6, 9, 20), "minput s8 %s" % P(4, 0, 70), "mresult s8", "mreset s8", "minput s8 %s" % P(4, 0, 5), "mraw s8"],
        "hmac512": ["mnew s8 hmac sha512 %s" % P(6, 9, 200), "minput s8 %s" % P(4, 0, 130), "mraw s8"],
        "poly1305": ["mnew s8 poly1305 %s" % k32, "minput s8 %s" % P(4, 0, 37), "mraw s8"],
        "b2mac": ["mnew s8 blake2b 32 %s" % H(b"k"), "minput s8 %s" % P(4, 0, 130), "mresult s8", "mreset s8", "minput s8 %s" % P(4, 0, 1), "mresult s8"],
        "legacy": ["dnew s8 sha256", "dinput s8 %s" % P(4, 0, 70), "dresult s8", "dreset s8", "dinput s8 %s" % P(4, 0, 3), "dresult s8"],
        "chacha": ["cnew s8 chacha 20 %s %s" % (k32, n12), "process_mut s8 %s" % P(4, 0, 70), "seek s8 3", "process s8 %s" % P(4, 0, 5), "cclone s8 s9", "cprobe s9 65"],
        "xchacha": ["cnew s8 xchacha 20 %s %s" % (k32, n24), "process_mut s8 %s" % P(4, 0, 130)],
        "salsa": ["cnew s8 salsa 20 %s %s" % (k16, n8), "process_mut s8 %s" % P(4, 0, 70), "process s8 %s" % P(4, 0, 5)],
        "xsalsa": ["cnew s8 xsalsa 20 %s %s" % (k32, n24), "process_mut s8 %s" % P(4, 0, 70)],
        "drg": ["drgnew s8 20 %s" % k32, "drg_u32 s8", "drg_fill_slice s8 %s" % P(1, 7, 70), "drg_u64 s8"],
        "aead": ["actx_new s8 20 %s %s" % (k32, n12), "actx_aad s8 %s" % P(4, 0, 13), "actx_toenc s8", "aenc_mut s8 %s" % P(4, 0, 70), "aenc_fin s8"],
        "aead1": ["aead_new s8 20 %s %s %s" % (k32, n12, P(4, 0, 5)), "aead_enc s8 %s" % P(4, 0, 40)],
        "kdf": ["pbkdf2 sha256 %s %s 2 40" % (H(b"pw"), H(b"salt")), "hkdf_extract sha256 %s %s" % (H(b"salt"), H(b"ikm")), "scrypt %s %s 1 1 1 33" % (H(b"pw"), H(b"salt"))],
        "argon2": ["argon2 id 19 1 1 8 %s %s h: h: 32 at" % (P(5, 0, 16), P(6, 0, 16))],
        "x25519": ["x25519_base %s" % k32, "x25519_dh %s %s" % (k32, P(5, 3, 32))],
        "ed25519": ["ed_keypair %s" % k32, "ed_verify %s %s %s" % (H(b"msg"), k32, P(5, 1, 64))],
    }
    return pool


def interfere(case, bops, mode):
    """weave the ops of a bystander program between the steps of `case` (ops, expected, meta). mode 0: round-robin (one bystander op
    after each step, the rest at the end); mode 1: the whole bystander program after every step of the case"""
    ops, exp, meta = case
    o2, e2 = [], []
    j = 0
    for i, (o, e) in enumerate(zip(ops, exp)):
        o2.append(o)
        e2.append(e)
        if mode == 0:
            if j < len(bops):
                o2.append(bops[j])
                e2.append(None)
                j += 1
        elif i + 1 < len(ops):
            o2 += bops
            e2 += [None] * len(bops)
    if mode == 0:
        o2 += bops[j:]
        e2 += [None] * len(bops[j:])
    return (o2, e2, meta)


def interference_cases(own_cases):
    out = []
    for name, b in bystanders().items():
        for c in own_cases:
            for mode in (0, 1):
                out.append(interfere(c, b, mode))
    return out
