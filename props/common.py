"""Shared tables for the property modules."""
from models import hashes
from mc.patterns import pat, P, H, obs_of

# new-API hash contexts: variant name -> (hnew kind tokens, one-shot function name or None, block bytes, digest bytes)
CTX = {}
for _n, (_b, _d) in hashes.FIXED.items():
    CTX[_n] = ([_n], None if _n in ("sha512_224", "sha512_256") else _n, _b, _d)
for _bits in (224, 256, 384, 512):
    CTX["blake2b_%d" % _bits] = (["b2b", str(_bits)], "blake2b_%d" % _bits, 128, _bits // 8)
for _bits in (224, 256):
    CTX["blake2s_%d" % _bits] = (["b2s", str(_bits)], "blake2s_%d" % _bits, 64, _bits // 8)

FIXED_VARIANTS = list(CTX.keys())      # 22 variants with a fixed-size context type

# BLAKE2 Context<BITS> instantiations that exist in the executor (legal ones)
B2B_BITS = (8, 9, 160, 224, 255, 256, 384, 505, 512)
B2S_BITS = (8, 9, 160, 224, 255, 256)


def model_digest(variant, msg):
    return hashes.digest(variant, msg)


def chunk_alphabet(B, tier):
    base = [0, 1, B - 1, B, B + 1, 2 * B + 1]
    if tier == "thorough":
        base += [2, 2 * B, 3 * B - 1]
    return base
