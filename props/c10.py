"""C10 - HKDF, PBKDF2 and scrypt derive exactly the keys their RFCs define."""
from mc import core
from mc.patterns import pat, P, H, obs_of
from models import macs, selfcheck

PROPERTY_ID = "C10"
RULE = ("one-step programs: HKDF digest {sha1,sha256,sha512,sha3_256,blake2b:64} x salt length {0,1,B,B+1} x IKM {0,1,22,80} x info {0,1,10,80} x "
        "L in {0,1,H-1,H,H+1,2H,2H+1,254H+1,255H-1,255H} equal RFC 5869, L in {255H+1,256H} and wrong PRK buffer sizes must panic; PBKDF2 PRF "
        "{HMAC-SHA1,-SHA256,-SHA512} x c {1,2,3,4,5,10,100,1000} x dkLen {1,H-1,H,H+1,2H,2H+1,3H+7} x 3 passwords x 3 salts vs hashlib.pbkdf2_hmac, "
        "c = 0 must panic; scrypt every log2N 1..=10 x r 1..=8 x p 1..=4 x dkLen {1,31,32,33,63,64,65,130} and every dkLen 1..=130 on three parameter "
        "sets vs hashlib.scrypt, parameter constructor on every RFC 7914 constraint boundary; non-trivial = every case; distinct = program text"
        " Also: HKDF handed digest objects that were fed / fed and finalised, with salts and PRKs up to 2B+7 bytes; PBKDF2 with an Hmac that was fed and reset, twice in a row on one Hmac, and with more than 65535 output blocks; every length 0..=2B+1 of HKDF salt / IKM / info / PRK, PBKDF2 password / salt and scrypt password / salt, one at a time; the corpus again on the checked-arithmetic build and (SHA-256 / BLAKE2b / scrypt) on the vector builds.")
ASSUMPTIONS = ["hashlib.pbkdf2_hmac and hashlib.scrypt (OpenSSL) are correct", "RFC 5869 python model over the RFC 2104 model (validated on RFC 5869 A.1, RFC 4231 #2, RFC 6070 #2, RFC 7914 #2)",
               "password/salt/IKM/info content from the pattern alphabet"]


def builds_needed(tier):
    return ["rel"]


# Own corpus re-run on other builds of the crate (mc/core.py: extra builds). Every observation is compared with the same model.
def _vec(fname, arg):
    if fname in ("shard_hkdf", "shard_everylen"):
        return str(arg).startswith(("sha224", "sha256", "blake2"))
    if fname == "shard_pbkdf2":
        return arg == "sha256"
    return fname.startswith("shard_scrypt") and fname != "shard_scrypt_params"


def extra_builds(tier):
    return [("relchk", None), ("sse41", _vec), ("avx", _vec), ("native", _vec), ("fe32", None)]



def bounds(tier):
    return {"scrypt_log2N": "1..=10" if tier == "thorough" else "1..=6 (+ spot 10)", "scrypt_r": "1..=8 (thorough also 9..=16 at small N)", "scrypt_p": "1..=4 (thorough also 5..=8 at small N)",
            "pbkdf2_c_max": 4096 if tier == "thorough" else 1000, "hkdf_digests": 13 if tier == "thorough" else 5, "hkdf_L_max": "255*HashLen (and +1, 256*HashLen refused)",
            "used_objects": "HKDF with fed / finalised digests x salts up to 2B+7; PBKDF2 after input+reset, twice on one Hmac", "pbkdf2_blocks_max": 65537,
            "every_length": "0..=2B+1 of salt, IKM, info, PRK (HKDF), password, salt (PBKDF2, scrypt), one input at a time"}


def validate_models(tier):
    selfcheck.check_macs()


HK = ["sha1", "sha256", "sha512", "sha3_256", "blake2b:64"]


HK_MORE = ["sha224", "sha384", "sha512_256", "sha3_512", "keccak256", "ripemd160", "blake2s:32", "blake2b:20"]


def shards(tier):
    sh = [("shard_hkdf", k) for k in (HK + HK_MORE if tier == "thorough" else HK)]
    sh += [("shard_pbkdf2", k) for k in ("sha1", "sha256", "sha512")]
    sh += [("shard_everylen", k) for k in (HK + HK_MORE if tier == "thorough" else HK)]
    maxn = 10 if tier == "thorough" else 6
    for ln in range(1, maxn + 1):
        sh.append(("shard_scrypt", ln))
    if tier == "thorough":
        sh.append(("shard_scrypt_wide", None))
    sh.append(("shard_scrypt_dklen", None))
    sh.append(("shard_scrypt_params", None))
    return sh


def shard_hkdf(kind, tier):
    ck = core.Checker(PROPERTY_ID)
    _, B, Hn = macs.kind_info(kind)
    cases = []
    Ls = [0, 1, Hn - 1, Hn, Hn + 1, 2 * Hn, 2 * Hn + 1, 254 * Hn + 1, 255 * Hn - 1, 255 * Hn]
    for sl in (0, 1, B, B + 1):
        salt = pat(6, 0, sl)
        for il in (0, 1, 22, 80):
            ikm = pat(5, 0, il)
            prk = macs.hkdf_extract(kind, salt, ikm)
            cases.append((["hkdf_extract %s %s %s" % (kind, P(6, 0, sl) if sl else "h:", P(5, 0, il) if il else "h:")], [obs_of(prk)], None))
            for nl in (0, 1, 10, 80):
                info = pat(7, 0, nl)
                full = macs.hkdf_expand(kind, prk, info, 255 * Hn)
                for L in Ls:
                    if L > 2 * Hn + 1 and not (sl in (0, B + 1) and il in (22,) and nl in (0, 10)) and tier != "thorough":
                        continue
                    cases.append((["hkdf_expand %s %s %s %d" % (kind, H(prk), P(7, 0, nl) if nl else "h:", L)], [obs_of(full[:L])], None))
    prk = macs.hkdf_extract(kind, b"", b"x")
    for L in (255 * Hn + 1, 256 * Hn, 256 * Hn + 1, 300 * Hn):
        cases.append((["hkdf_expand %s %s h: %d" % (kind, H(prk), L)], ["PANIC"], None))
    for bad in (0, Hn - 1, Hn + 1, 2 * Hn):
        cases.append((["hkdf_extract %s h: h:78 %d" % (kind, bad)], ["PANIC"], None))
    # the digest object handed in may have been used before (fed, or fed and finalised): HKDF starts from a clean hash state
    salt, ikm, info = pat(6, 0, 13), pat(5, 0, 22), pat(7, 0, 10)
    prk = macs.hkdf_extract(kind, salt, ikm)
    okm = macs.hkdf_expand(kind, prk, info, 2 * Hn + 1)
    for sl in (13, B, B + 1, 2 * B + 7):
        salt = pat(6, 0, sl)
        prk = macs.hkdf_extract(kind, salt, ikm)
        okm = macs.hkdf_expand(kind, prk, info, 2 * Hn + 1)
        lprk = pat(6, 1, sl) if sl > Hn else prk           # a PRK may be longer than HashLen (also longer than a block)
        lokm = macs.hkdf_expand(kind, lprk, info, 2 * Hn + 1)
        for dl in (1, B - 1, B, B + 1, 2 * B + 3):
            for fin in ("", " fin"):
                cases.append((["hkdf_extract %s %s %s - %s%s" % (kind, P(6, 0, sl), P(5, 0, 22), P(4, 0, dl), fin)], [obs_of(prk)], None))
                cases.append((["hkdf_expand %s %s %s %d %s%s" % (kind, H(lprk), P(7, 0, 10), 2 * Hn + 1, P(4, 0, dl), fin)], [obs_of(lokm)], None))
    # a PRK longer than HashLen is legal ("at least HashLen octets")
    long_prk = pat(6, 3, B + 7)
    cases.append((["hkdf_expand %s %s h:01 %d" % (kind, H(long_prk), 2 * Hn + 1)], [obs_of(macs.hkdf_expand(kind, long_prk, b"\x01", 2 * Hn + 1))], None))
    ck.run(cases)
    ck.stats.states = len(cases) + 1
    return ck.stats


def shard_everylen(kind, tier):
    """every length 0..=2B+1 of each variable-length input, one at a time (every residue of every inner message length modulo the
    block size of the PRF's hash, on both sides of the key-is-hashed threshold): HKDF salt / IKM / info, PBKDF2 password / salt, and
    (for sha256) scrypt password / salt"""
    ck = core.Checker(PROPERTY_ID)
    _, B, Hn = macs.kind_info(kind)
    cases = []
    top = 2 * B + 1
    for n in range(0, top + 1):
        a = lambda k, ln: (P(k, 0, ln) if ln else "h:")
        # IKM
        for sl in (0, 13):
            cases.append((["hkdf_extract %s %s %s" % (kind, a(6, sl), a(5, n))], [obs_of(macs.hkdf_extract(kind, pat(6, 0, sl), pat(5, 0, n)))], None))
        # salt
        cases.append((["hkdf_extract %s %s %s" % (kind, a(6, n), a(5, 22))], [obs_of(macs.hkdf_extract(kind, pat(6, 0, n), pat(5, 0, 22)))], None))
        # info (first and later T blocks have different message lengths)
        prk = pat(6, 5, Hn)
        cases.append((["hkdf_expand %s %s %s %d" % (kind, H(prk), a(7, n), Hn + 1)], [obs_of(macs.hkdf_expand(kind, prk, pat(7, 0, n), Hn + 1))], None))
        # PRK length
        if n >= Hn:
            lprk = pat(6, 3, n)
            cases.append((["hkdf_expand %s %s h:01 %d" % (kind, H(lprk), Hn + 1)], [obs_of(macs.hkdf_expand(kind, lprk, b"\x01", Hn + 1))], None))
        if kind in ("sha1", "sha256", "sha512"):
            cases.append((["pbkdf2 %s %s %s 1 %d" % (kind, a(5, 8), a(6, n), Hn + 1)], [obs_of(macs.pbkdf2(kind, pat(5, 0, 8), pat(6, 0, n), 1, Hn + 1))], None))
            cases.append((["pbkdf2 %s %s %s 2 1" % (kind, a(5, n), a(6, 8))], [obs_of(macs.pbkdf2(kind, pat(5, 0, n), pat(6, 0, 8), 2, 1))], None))
        if kind == "sha256":
            import hashlib
            for (pl, sl) in ((n, 8), (8, n)):
                pw, salt = pat(5, 0, pl), pat(6, 0, sl)
                exp = hashlib.scrypt(pw, salt=salt, n=2, r=1, p=1, dklen=33)
                cases.append((["scrypt %s %s 1 1 1 33" % (a(5, pl), a(6, sl))], [obs_of(exp)], None))
    ck.run(cases)
    ck.stats.states = len(cases) + 1
    return ck.stats


def shard_pbkdf2(kind, tier):
    ck = core.Checker(PROPERTY_ID)
    _, B, Hn = macs.kind_info(kind)
    cases = []
    pws = [(0, b""), (1, pat(5, 0, 8)), (2, pat(5, 0, B + 3))]
    salts = [(0, b""), (1, pat(6, 0, 8)), (2, pat(6, 0, 61))]
    for c in ((1, 2, 3, 4, 5, 6, 7, 8, 9, 10, 16, 17, 100, 255, 256, 257, 1000, 4096) if tier == "thorough" else (1, 2, 3, 4, 5, 10, 100, 1000)):
        for dk in (1, Hn - 1, Hn, Hn + 1, 2 * Hn, 2 * Hn + 1, 3 * Hn + 7):
            for _, pw in pws:
                for _, salt in salts:
                    if c >= 1000 and tier != "thorough" and (len(pw) != 8 or dk not in (Hn + 1, 1)):
                        continue
                    exp = macs.pbkdf2(kind, pw, salt, c, dk)
                    cases.append((["pbkdf2 %s %s %s %d %d" % (kind, H(pw), H(salt), c, dk)], [obs_of(exp)], None))
    cases.append((["pbkdf2 %s h:70 h:73 0 %d" % (kind, Hn)], ["PANIC"], None))
    # more than 65535 output blocks (RFC 8018 allows up to 2^32 - 1)
    n = 65536 * Hn + 5
    cases.append((["pbkdf2 %s %s %s 1 %d" % (kind, H(pat(5, 0, 8)), H(pat(6, 0, 8)), n)], [obs_of(macs.pbkdf2(kind, pat(5, 0, 8), pat(6, 0, 8), 1, n))], None))
    # the Hmac handed in was fed and reset before (a reset object is a fresh one)
    for pre in (1, B, B + 3):
        exp = macs.pbkdf2(kind, pat(5, 0, 8), pat(6, 0, 8), 2, Hn + 1)
        cases.append((["pbkdf2_after_reset %s %s %s 2 %d %s" % (kind, H(pat(5, 0, 8)), H(pat(6, 0, 8)), Hn + 1, P(4, 0, pre))], [obs_of(exp)], None))
    # one Hmac object driving two derivations in a row (scrypt does exactly this)
    for c in (1, 2, 3):
        for dk in (1, Hn, Hn + 1, 2 * Hn + 5):
            pw, s1, s2 = pat(5, 0, 8), pat(6, 0, 8), pat(6, 9, 5)
            exp = macs.pbkdf2(kind, pw, s1, c, dk) + macs.pbkdf2(kind, pw, s2, c, dk)
            cases.append((["pbkdf2_twice %s %s %s %s %d %d" % (kind, H(pw), H(s1), H(s2), c, dk)], [obs_of(exp)], None))
    ck.run(cases)
    ck.stats.states = len(cases) + 1
    return ck.stats


def shard_scrypt(log_n, tier):
    ck = core.Checker(PROPERTY_ID)
    cases = []
    for r in range(1, 9):
        for p in range(1, 5):
            if log_n >= 16 * r:
                continue
            for dk in (1, 31, 32, 33, 63, 64, 65, 130):
                for pw, salt in ((pat(5, 0, 9), pat(6, 0, 13)), (b"", b"")):
                    if tier != "thorough" and (pw == b"" and dk not in (32, 65)):
                        continue
                    exp = macs.scrypt(pw, salt, log_n, r, p, dk)
                    cases.append((["scrypt %s %s %d %d %d %d" % (H(pw), H(salt), log_n, r, p, dk)], [obs_of(exp)], None))
    ck.run(cases)
    ck.stats.states = len(cases)
    return ck.stats


def shard_scrypt_dklen(_, tier):
    ck = core.Checker(PROPERTY_ID)
    cases = []
    sets = [(1, 1, 1), (4, 3, 2), (6, 8, 1)]
    if tier != "thorough":
        sets.append((10, 8, 2))   # one spot check at N = 1024 in the quick tier
    for (ln, r, p) in sets:
        for dk in (range(1, 131) if ln <= 6 else (1, 64, 130)):
            pw, salt = pat(5, 2, 11), pat(6, 2, 7)
            cases.append((["scrypt %s %s %d %d %d %d" % (H(pw), H(salt), ln, r, p, dk)], [obs_of(macs.scrypt(pw, salt, ln, r, p, dk))], None))
    cases.append((["scrypt h:70 h:73 1 1 1 0"], ["PANIC"], None))
    ck.run(cases)
    ck.stats.states = len(cases)
    return ck.stats


def shard_scrypt_params(_, tier):
    """RFC 7914 constraints: r, p > 0; N > 1 a power of two and N < 2^(128*r/8) i.e. log_n < 16r; p <= (2^32-1)*32/(128 r) i.e. r*p < 2^30"""
    ck = core.Checker(PROPERTY_ID)
    ok, bad = "-", "PANIC"
    cases = [
        (["scrypt_params 1 1 1"], [ok], None), (["scrypt_params 0 1 1"], [bad], None), (["scrypt_params 1 0 1"], [bad], None),
        (["scrypt_params 1 1 0"], [bad], None), (["scrypt_params 15 1 1"], [ok], None), (["scrypt_params 16 1 1"], [bad], None),
        (["scrypt_params 17 1 1"], [bad], None), (["scrypt_params 31 2 1"], [ok], None), (["scrypt_params 32 2 1"], [bad], None),
        (["scrypt_params 63 4 1"], [(ok, bad)], None),   # RFC-admissible but 128*r*N overflows usize: accepting or refusing loudly are both fine (["scrypt_params 64 4 1"], [bad], None), (["scrypt_params 64 8 1"], [bad], None),
        (["scrypt_params 255 100 1"], [bad], None),
        (["scrypt_params 1 1 %d" % (2 ** 30 - 1)], [ok], None), (["scrypt_params 1 1 %d" % (2 ** 30)], [bad], None),
        (["scrypt_params 1 %d %d" % (2 ** 15, 2 ** 15 - 1)], [ok], None), (["scrypt_params 1 %d %d" % (2 ** 15, 2 ** 15)], [bad], None),
        (["scrypt_params 1 %d 1" % (2 ** 30 - 1)], [ok], None), (["scrypt_params 1 %d 1" % (2 ** 30)], [bad], None),
        (["scrypt_params 1 %d %d" % (2 ** 32 - 1, 2 ** 32 - 1)], [bad], None),
    ]
    ck.run(cases)
    ck.stats.states = len(cases)
    return ck.stats


def shard_scrypt_wide(_, tier):
    """r and p beyond the main grid (r up to 16, p up to 8) at small N"""
    ck = core.Checker(PROPERTY_ID)
    cases = []
    pw, salt = pat(5, 0, 9), pat(6, 0, 13)
    for ln in (1, 2, 4):
        for r in range(9, 17):
            for p in (1, 3):
                cases.append((["scrypt %s %s %d %d %d 64" % (H(pw), H(salt), ln, r, p)], [obs_of(macs.scrypt(pw, salt, ln, r, p, 64))], None))
        for r in (1, 3, 8):
            for p in (5, 6, 7, 8):
                cases.append((["scrypt %s %s %d %d %d 33" % (H(pw), H(salt), ln, r, p)], [obs_of(macs.scrypt(pw, salt, ln, r, p, 33))], None))
    for ln in (11, 12):
        cases.append((["scrypt %s %s %d 2 1 32" % (H(pw), H(salt), ln)], [obs_of(macs.scrypt(pw, salt, ln, 2, 1, 32))], None))
    ck.run(cases)
    ck.stats.states = len(cases)
    return ck.stats
