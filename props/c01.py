"""C01 - every one-shot digest equals its standard function on every message."""
from mc import core
from mc.patterns import pat, P, H, obs_of
from models import hashes
from .common import CTX, FIXED_VARIANTS, B2B_BITS, B2S_BITS

PROPERTY_ID = "C01"
RULE = ("one-step programs: for every variant x message length x content pattern the one-shot function and "
        "new().update(m).finalize() are run on the real code and compared with hashlib / the validated Keccak model; "
        "BLAKE2 is swept over every outlen x keylen through ContextDyn, the Context<BITS> instantiations and the legacy "
        "static helpers; a case is non-trivial when the message or the key is non-empty; distinct = distinct program text"
        " Also: every whole-block count 5..33 in one call with tails -1/0/+1/mid; one message of 2^29+104 bytes (bit length passing 2^32) for the 8 variants with a length counter; the advertised OUTPUT_BITS / BLOCK_BYTES constants; the whole corpus again on the checked-arithmetic build and (SHA-256 / BLAKE2 variants) on the +sse4.1, +avx, +avx2 and native builds.")
ASSUMPTIONS = ["hashlib (OpenSSL/CPython) implements SHA-1/SHA-2/SHA-3/RIPEMD-160/BLAKE2 correctly",
               "the python Keccak sponge is correct for pad 0x01 because the same code with pad 0x06 equals hashlib.sha3_* on every length 0..2*rate+1",
               "message content is drawn from a fixed alphabet of byte patterns; lengths beyond 64 KiB are not explored"]


def builds_needed(tier):
    return ["rel"]


# Own corpus re-run on other builds of the crate (mc/core.py: extra builds). Every observation is compared with the same model.
def _vec(fname, arg):
    v = arg if isinstance(arg, str) else (arg[0] if isinstance(arg, (tuple, list)) else "")
    if fname == "shard_huge":
        return False        # the length counter is not vector code
    return fname in ("shard_b2dyn", "shard_b2bits") or str(v).startswith(("sha224", "sha256", "blake2"))


def extra_builds(tier):
    return [("relchk", None), ("sse41", _vec), ("avx", _vec), ("avx2", _vec), ("native", _vec), ("fe32", lambda f, a: f != "shard_huge")]



def bounds(tier):
    return {"fixed_variant_lengths": "0..=8B+1" if tier == "thorough" else "0..=4B+1",
            "patterns": 6 if tier == "thorough" else 2,
            "blake2_outlen_x_keylen": "all (1..=64 x 0..=64, 1..=32 x 0..=32)",
            "input_alignments": "byte offsets 1..=7 (quick) / 1..=63 (thorough) on boundary lengths",
            "huge": "2^29+104 bytes (bit length passing 2^32) for the 8 variants with a length counter", "long_lengths": ("kB-1,kB,kB+1,kB+B/2+3 for every k in 5..=33; " + ("kB-1,kB,kB+1 for k in {64,512,1024}; 65536, 65537, 131072" if tier == "thorough" else "kB-1,kB,kB+1 for k in {64,512}; 65536"))}


def validate_models(tier):
    hashes.self_check(thorough=False)


def shards(tier):
    sh = [("shard_fixed", v) for v in FIXED_VARIANTS]
    sh += [("shard_b2dyn", ("b", lo)) for lo in range(0, 4)] + [("shard_b2dyn", ("s", lo)) for lo in range(0, 2)]
    sh += [("shard_b2bits", "b"), ("shard_b2bits", "s")]
    sh += [("shard_long", v) for v in FIXED_VARIANTS]
    sh += [("shard_align", v) for v in FIXED_VARIANTS]
    return [("shard_huge", v) for v in COUNTER_VARIANTS] + sh        # the slow shards are scheduled first


# variants that keep a message-length counter (the sponges keep none; the BLAKE2 byte counters are preset through a hook in C02 / C20)
COUNTER_VARIANTS = ["sha1", "sha224", "sha256", "sha384", "sha512", "sha512_224", "sha512_256", "ripemd160"]


def shard_huge(variant, tier):
    """a message of 2^29 + 104 bytes (bit length passing 2^32, the first carry inside the length counter / length encoding), fed as
    eight calls of 2^26 + 13 bytes: the crossing falls inside the last call (64 MiB of buffer instead of half a gigabyte)"""
    import hashlib
    ck = core.Checker(PROPERTY_ID)
    kind, oneshot, B, D = CTX[variant]
    clen, cnt = (1 << 26) + 13, 8
    h = hashlib.new(variant)
    chunk = b"\xff" * clen
    for _ in range(cnt):
        h.update(chunk)
    d = obs_of(h.digest())
    cases = [(["hnew s0 %s" % " ".join(kind), "update_rep s0 %s %d" % (P(1, 0, clen), cnt), "fin s0"], ["-", "-", d], {"nt": True})]
    ck.run(cases, nontrivial=_nontrivial)
    ck.stats.states = len(cases)
    return ck.stats


def _nontrivial(ops, meta):
    return bool(meta and meta.get("nt"))


def shard_fixed(variant, tier):
    ck = core.Checker(PROPERTY_ID)
    kind, oneshot, B, D = CTX[variant]
    maxlen = 8 * B + 1 if tier == "thorough" else 4 * B + 1
    pats = (2, 5, 1, 0, 6, 4) if tier == "thorough" else (2, 5)
    cases = []
    for k in pats:
        for n in range(maxlen + 1):
            m = pat(k, 0, n)
            d = obs_of(hashes.digest(variant, m))
            ops, exp = [], []
            if oneshot:
                ops.append("hash %s %s" % (oneshot, P(k, 0, n)))
                exp.append(d)
            ops += ["hnew s0 %s" % " ".join(kind), "update s0 %s" % P(k, 0, n), "fin s0"]
            exp += ["-", "-", d]
            cases.append((ops, exp, {"nt": n > 0}))
    # the advertised parameters of the algorithm (digest bits, block bytes) are the standard's
    cases.append((["hconsts %s" % variant], ["%d.%d" % (8 * D, B)], {"nt": True}))
    ck.run(cases, nontrivial=_nontrivial)
    ck.stats.states = len(cases) + 1
    return ck.stats


def shard_b2dyn(arg, tier):
    """BLAKE2 with every legal outlen x keylen, through ContextDyn and the legacy static helper"""
    which, part = arg
    ck = core.Checker(PROPERTY_ID)
    B, mx = (128, 64) if which == "b" else (64, 32)
    nparts = 4 if which == "b" else 2
    outlens = [o for o in range(1, mx + 1) if o % nparts == part]
    keylens = list(range(0, mx + 1))
    if tier == "thorough":
        pats = (5, 2)
        lens = [0, 1, 2, B - 2, B - 1, B, B + 1, 2 * B - 1, 2 * B, 2 * B + 1, 3 * B, 4 * B + 1]
    else:
        pats = (5,)
        lens = [0, 1, B - 1, B, B + 1, 2 * B, 2 * B + 1]
    kind = "b2bdyn" if which == "b" else "b2sdyn"
    static = "b2b_static" if which == "b" else "b2s_static"
    cases = []
    for o in outlens:
        for kl in keylens:
            key = pat(6, 0, kl)
            for k in pats:
                for n in lens:
                    d = obs_of(hashes.blake2(which, pat(k, 0, n), o, key))
                    new = "hnew s0 %s %d" % (kind, o) + ((" " + P(6, 0, kl)) if kl else "")
                    ops = [new, "update_mut s0 %s" % P(k, 0, n), "fin s0",
                           "%s %d %s %s" % (static, o, P(k, 0, n), P(6, 0, kl) if kl else "h:")]
                    cases.append((ops, ["-", "-", d, d], {"nt": n > 0 or kl > 0}))
            if len(cases) > 4000:
                ck.run(cases, nontrivial=_nontrivial)
                ck.stats.states += len(cases)
                cases = []
    ck.run(cases, nontrivial=_nontrivial)
    ck.stats.states += len(cases) + 1
    return ck.stats


def shard_b2bits(which, tier):
    """Context<BITS> for the instantiated BITS (including non multiples of 8), keyed and unkeyed"""
    ck = core.Checker(PROPERTY_ID)
    B, mx = (128, 64) if which == "b" else (64, 32)
    kind = "b2b" if which == "b" else "b2s"
    bitset = B2B_BITS if which == "b" else B2S_BITS
    lens = [0, 1, B - 1, B, B + 1, 2 * B + 1] + ([2 * B, 3 * B] if tier == "thorough" else [])
    cases = []
    for bits in bitset:
        o = (bits + 7) // 8
        for kl in (0, 1, mx):
            key = pat(6, 0, kl)
            for ctxform in (("",) if kl == 0 else ("", " ctx")):
                for n in lens:
                    d = obs_of(hashes.blake2(which, pat(5, 0, n), o, key))
                    new = "hnew s0 %s %d" % (kind, bits) + ((" " + P(6, 0, kl) + ctxform) if kl else "")
                    cases.append(([new, "update s0 %s" % P(5, 0, n), "hclone s0 s1", "fin s0", "fin_at s1 %d" % o],
                                  ["-", "-", "-", d, d], {"nt": n > 0 or kl > 0}))
    ck.run(cases, nontrivial=_nontrivial)
    ck.stats.states = len(cases) + 1
    return ck.stats


def shard_long(variant, tier):
    ck = core.Checker(PROPERTY_ID)
    kind, oneshot, B, D = CTX[variant]
    ks = (8, 64, 512, 1024) if tier == "thorough" else (8, 64, 512)
    lens = [k * B + d for k in ks for d in (-1, 0, 1)] + ([65536, 65537, 131072] if tier == "thorough" else [65536])
    # every number of whole blocks 5..=33 in one call with tails -1/0/+1 (and a mid-block tail): every batch size of a multi-block
    # compression loop together with every remainder size
    lens += [k * B + d for k in range(5, 34) if k != 8 for d in (-1, 0, 1, B // 2 + 3)]
    if tier == "thorough" and variant in ("sha1", "sha256", "sha512", "sha3_256", "keccak512", "ripemd160", "blake2b_512", "blake2s_256"):
        lens += [1 << 20, (1 << 20) + 1]
    cases = []
    for n in lens:
        m = pat(5, 7, n)
        d = obs_of(hashes.digest(variant, m))
        ops, exp = [], []
        if oneshot:
            ops.append("hash %s %s" % (oneshot, P(5, 7, n)))
            exp.append(d)
        ops += ["hnew s0 %s" % " ".join(kind), "update_mut s0 %s" % P(5, 7, n), "fin_reset s0"]
        exp += ["-", "-", d]
        cases.append((ops, exp, {"nt": True}))
    ck.run(cases, nontrivial=_nontrivial)
    ck.stats.states = len(cases)
    return ck.stats


def shard_align(variant, tier):
    """the same digests from input slices at odd byte offsets (unaligned reads in the block loaders)"""
    ck = core.Checker(PROPERTY_ID)
    kind, oneshot, B, D = CTX[variant]
    offs = range(1, 64) if tier == "thorough" else range(1, 8)
    cases = []
    for n in (1, B - 1, B, B + 1, 2 * B, 3 * B + 5, 4 * B + 1):
        d = obs_of(hashes.digest(variant, pat(5, 0, n)))
        for off in offs:
            ops, exp = [], []
            if oneshot:
                ops.append("hash %s @%d:%s" % (oneshot, off, P(5, 0, n)))
                exp.append(d)
            ops += ["hnew s0 %s" % " ".join(kind), "update_mut s0 @%d:%s" % (off, P(5, 0, 1)), "update_mut s0 @%d:%s" % ((off * 7) % 64, P(5, 1, n - 1)), "fin s0"]
            exp += ["-", "-", "-", d]
            cases.append((ops, exp, {"nt": True}))
    ck.run(cases, nontrivial=_nontrivial)
    ck.stats.states = len(cases)
    return ck.stats
