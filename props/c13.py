"""C13 - Ed25519 key generation and signing equal RFC 8032 for every seed and message."""
from mc import core
from mc.patterns import pat, P, H, obs_of
from models import curve, selfcheck

PROPERTY_ID = "C13"
RULE = ("one-step programs: seeds {00.., FF.., 3 RFC 8032 seeds, 6 patterns} x messages (every length 0..=300 for two seeds; boundary lengths "
        "{0,1,31,32,33,63,64,65,95,96,97,111,112,127,128,129,255,256,257,1023,1024} for all seeds): keypair (both halves, layout, accessors), signature, "
        "signature_extended(clamp(SHA512(seed))) identical, extended_to_public, exchange == X25519(hashed secret, (1+y)/(1-y)) for honest public keys and for small-order / non-canonical / y=1 / non-point strings; plus a key-derivation sweep over every single-bit seed, constant-byte seeds and pattern windows, and a sweep of 4000 (thorough 20000) short messages under one key; oracle = python RFC 8032; "
        "distinct = program text"
        " Also: component shards from C15: wide reduction on steered remainders and committed corner inputs, a*b+c mod L on limb-field scalars (hook), fixed-base multiplication on carry-chain digit strings; the corpus again on the checked-arithmetic, force-32bits and native builds."
        " Buffer placement: messages of 5 / 200 / 400 bytes and the keypair at every address offset modulo 8 (+16, 33).")
ASSUMPTIONS = ["python RFC 8032 model (validated on RFC 8032 7.1 tests 1-3 and 15 OpenSSL signatures)", "seeds and message content from the enumerated alphabet"]

RFC_SEEDS = ["9d61b19deffd5a60ba844af492ec2cc44449c5697b326919703bac031cae7f60", "4ccd089b28ff96da9db6c346ec114e0f5b8a319f35aba624da8cf6ed4fb8a6fb",
             "c5aa8df43f9f837bedb7442f31dcb7b166d38535076f094b85ce3a2e0b4458f7"]
BOUNDARY = (0, 1, 31, 32, 33, 63, 64, 65, 95, 96, 97, 111, 112, 127, 128, 129, 255, 256, 257, 1023, 1024)


def builds_needed(tier):
    return ["rel"]


# Own corpus re-run on other builds of the crate (mc/core.py: extra builds). Every observation is compared with the same model.
def extra_builds(tier):
    return [("relchk", None), ("fe32", None), ("native", None)]



def bounds(tier):
    return {"seeds": len(seeds()), "every_length_0_to_300_for": "all seeds (+4095,4096,65536)" if tier == "thorough" else "two seeds", "boundary_lengths": list(BOUNDARY),
            "components": "C15 scalar (reduce steering), scalar hooks (muladd, recodings), fixed-base carry-chain scalars"}


def validate_models(tier):
    selfcheck.check_curve()


def seeds():
    return [bytes(32), b"\xff" * 32] + [bytes.fromhex(x) for x in RFC_SEEDS] + [pat(k, o, 32) for k, o in ((5, 0), (6, 0), (7, 0), (2, 0), (5, 77), (6, 77))]


def seed_cases(si, tier):
    sd = seeds()
    seed = sd[si]
    kp, pub = curve.ed_keypair(seed)
    ext = curve.ed_expand(seed)
    out = []
    out.append((["ed_keypair %s" % H(seed), "ed_ext_to_pub %s" % H(ext)],
                ["%s.%s.%s.%s" % (kp.hex(), pub.hex(), seed.hex(), pub.hex()), pub.hex()], None))
    # exchange with every other seed's public key
    for sj, other in enumerate(sd):
        opub = curve.ed_keypair(other)[1]
        out.append((["ed_exchange %s %s" % (H(opub), H(seed))], [curve.ed_exchange(opub, seed).hex()], None))
    # exchange with adversarial public keys as well: small-order points, non-canonical encodings, y = 1 (division by zero in the map), non-points
    if si in (5, 0, 1):
        from .c14 import special_points
        for e in special_points():
            out.append((["ed_exchange %s %s" % (H(e), H(seed))], [curve.ed_exchange(e, seed).hex()], None))
    lens = list(BOUNDARY)
    if si in (5, 3) or tier == "thorough":
        lens = sorted(set(lens) | set(range(0, 301)))
    if tier == "thorough":
        lens += [4095, 4096, 65536]
    for n in lens:
        msg = pat(2 if si % 2 else 5, 3, n)
        sig = curve.ed_sign_extended(msg, ext, pub).hex()
        marg = P(2 if si % 2 else 5, 3, n) if n else "h:"
        out.append((["ed_sign %s %s" % (marg, H(kp)), "ed_sign_ext %s %s" % (marg, H(ext))], [sig, sig], None))
    return out


def sweep_seed_cases(part, nparts, tier):
    """many more seeds for key derivation only (the secret scalar's recoding is value dependent): every single-bit seed and pattern windows"""
    out = []
    sd = [bytes(31 - i // 8) + bytes([1 << (i % 8)]) + bytes(i // 8) for i in range(256)]
    sd += [bytes([b]) * 32 for b in range(1, 255, 3)]
    sd += [pat(k, o, 32) for k in (5, 6, 7) for o in range(100, 100 + (40 if tier == "thorough" else 10))]
    for j, seed in enumerate(sd):
        if j % nparts != part:
            continue
        kp, pub = curve.ed_keypair(seed)
        ext = curve.ed_expand(seed)
        sig = curve.ed_sign_extended(b"x", ext, pub).hex()
        out.append((["ed_keypair %s" % H(seed), "ed_ext_to_pub %s" % H(ext), "ed_sign h:78 %s" % H(kp)],
                    ["%s.%s.%s.%s" % (kp.hex(), pub.hex(), seed.hex(), pub.hex()), pub.hex(), sig], None))
    return out


def sweep_msg_cases(part, nparts, tier):
    """many short messages under one key: three wide scalar reductions per signature, each value dependent"""
    out = []
    seed = pat(6, 0, 32)
    kp, pub = curve.ed_keypair(seed)
    ext = curve.ed_expand(seed)
    n = 20000 if tier == "thorough" else 4000
    for i in range(n):
        if i % nparts != part:
            continue
        msg = b"message %d" % i
        out.append((["ed_sign %s %s" % (H(msg), H(kp))], [curve.ed_sign_extended(msg, ext, pub).hex()], None))
    return out


def cases(tier):
    out = []
    for si in range(len(seeds())):
        out += seed_cases(si, tier)
    return out


def _own_shards(tier):
    return [("shard", i) for i in range(len(seeds()))] + [("shard_sweep", ("seed", i)) for i in range(8)] + [("shard_sweep", ("msg", i)) for i in range(8)] + [("shard_placement", None)]


def shard_placement(_, tier):
    """where the caller's buffers lie: messages of 5, 200 and 400 bytes (up to three SHA-512 blocks taken straight from the caller's
    slice in both hashes) and the keypair at every address offset modulo 8 (and 16, 33) from a 64-byte boundary"""
    ck = core.Checker(PROPERTY_ID)
    seed = pat(5, 11, 32)
    kp, pub = curve.ed_keypair(seed)
    cs = []
    offs = list(range(8)) + [16, 33]
    for n in (5, 200, 400):
        msg = pat(6, 2, n)
        sig = curve.ed_sign(msg, seed).hex()
        for om in offs:
            for ok in (0, om, (om + 3) % 8):
                cs.append((["ed_sign @%d:%s @%d:%s" % (om, H(msg), ok, H(kp))], [sig], None))
    ck.run(cs)
    ck.stats.states = len(cs)
    return ck.stats


def shard_sweep(arg, tier):
    kind, i = arg
    ck = core.Checker(PROPERTY_ID)
    cs = sweep_seed_cases(i, 8, tier) if kind == "seed" else sweep_msg_cases(i, 8, tier)
    ck.run(cs)
    ck.stats.states = len(cs)
    return ck.stats


def shard(i, tier):
    ck = core.Checker(PROPERTY_ID)
    cs = seed_cases(i, tier)
    ck.run(cs)
    ck.stats.states = len(cs)
    return ck.stats


def shards(tier):
    # signing is SHA-512, two wide reductions, a*b+c mod L and a fixed-base multiplication: the scalar and fixed-base programs of C15 (limb-field operands, carry-chain digit strings) drive their rare paths directly, as a component of this property
    from props import c15
    comp = []
    for fname in ['shard_scalar', 'shard_scalar_hooks', 'shard_base']:
        comp += [("shard_c15_component", (f, a)) for (f, a) in c15.shards(tier) if f == fname]
    return _own_shards(tier) + comp


def shard_c15_component(arg, tier):
    from mc import multi
    return multi.run_component("c15", arg[0], arg[1], tier, PROPERTY_ID)
