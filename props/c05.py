"""C05 - Poly1305 returns the specified tag for every key and message, in any split of input calls."""
from mc import core
from mc.patterns import pat, P, H, obs_of
from models import poly, selfcheck

PROPERTY_ID = "C05"
RULE = ("programs new(key); input(chunk)*; raw_result|result: keys = r in {0,1,2,unclamped all-ones,max clamped,2 patterns} x s in {0,all-ones,pattern}; "
        "messages = every length 0..=80 (thorough 0..=160) x content patterns, RFC 8439 A.3 wrap-around inputs, crafted r=1 three-block messages whose accumulator lands on "
        "p-2..p+4; accumulator steering with r in {1,2,4,5}: blocks assembled from 26-bit limb fields at their carry boundaries (every combination), alone, after 1-3 zero blocks (the sum passing 2^130) and with short tails; saturated keys (all-ones, max clamped r) x every sequence of <= 3 blocks with limb fields in {0,max}, and runs of up to 4096 saturated blocks; 1152 committed crafted inputs (full-size keys) whose accumulator enters the final reduction in each of the 32 corner states {pending carry even/odd} x {limbs 2,3,4 saturated or not} x {limb 0 within 5 of 2^26 or not}; chunkings = one call, every 2-split (every cut point), every 3-split for lengths <= 50 (thorough), every sequence of <= 3 chunks over "
        "{0,1,15,16,17,33}; oracle = big-integer definition of RFC 8439 2.5; non-trivial = non-empty message; distinct = program text")
ASSUMPTIONS = ["the 6-line big-integer Poly1305 of RFC 8439 2.5.1 (validated on 2.5.2 and A.3 #5-#11)", "message content from the pattern alphabet plus crafted wrap-around blocks"]

P130 = (1 << 130) - 5


def builds_needed(tier):
    return ["rel"]


# Own corpus re-run on other builds of the crate (mc/core.py: extra builds). Every observation is compared with the same model.
def extra_builds(tier):
    return [("relchk", None), ("native", None), ("fe32", None)]



def bounds(tier):
    return {"lengths": "0..=160" if tier == "thorough" else "0..=80", "keys": 42 if tier == "thorough" else 8, "two_splits": "all cut points",
            "three_splits": "all for len<=50 (3 keys)" if tier == "thorough" else "none", "tree_depth": 3,
            "limb_field_blocks": len(limb_blocks(tier)), "steering_cases": len(limb_cases(tier)), "saturated_block_sequences": len(saturated_cases(tier)),
            "corner_state_inputs": len(corner_cases()), "repeat_and_reset_histories": True}


def validate_models(tier):
    selfcheck.check_poly()


def keys(tier):
    rs = [bytes(16), (1).to_bytes(16, "little"), (2).to_bytes(16, "little"), b"\xff" * 16,
          (0x0ffffffc0ffffffc0ffffffc0fffffff).to_bytes(16, "little"), pat(5, 0, 16), pat(6, 0, 16)]
    if tier == "thorough":
        # r with single 26-bit limbs saturated, and r = 4 (the A.3 #10/#11 key shape)
        rs += [(0x3ffffff << sh & 0x0ffffffc0ffffffc0ffffffc0fffffff).to_bytes(16, "little") for sh in (0, 26, 52, 78, 104)]
        rs += [bytes.fromhex("01000000000000000400000000000000"), pat(7, 5, 16)]
    ss = [bytes(16), b"\xff" * 16, pat(7, 0, 16)]
    out = [r + s for r in rs for s in ss]
    if tier != "thorough":
        out = [out[i] for i in (1, 4, 5, 10, 11, 14, 17, 20)]
    return out


def crafted():
    """messages for r = 1 whose marked block sum lands on p-2 .. p+4 (so the final conditional subtraction and the
    2^130 wrap are exercised), plus the RFC 8439 A.3 wrap-around messages"""
    out = []
    for k in range(0, 7):
        tot = (1 << 128) - 7 + k          # m1 + m2 + m3
        m1 = (1 << 128) - 1
        rest = tot - m1
        if rest < 0:
            m1 += rest
            rest = 0
        out.append(m1.to_bytes(16, "little") + rest.to_bytes(16, "little") + bytes(16))
    out += [bytes.fromhex(x) for x in (
        "ff" * 16, "02" + "00" * 15, "ff" * 16 + "f0" + "ff" * 15 + "11" + "00" * 15, "ff" * 16 + "fb" + "fe" * 15 + "01" * 16, "fd" + "ff" * 15,
        "e33594d7505e43b900000000000000003394d7505e4379cd01000000000000000000000000000000000000000000000001000000000000000000000000000000",
        "e33594d7505e43b900000000000000003394d7505e4379cd010000000000000000000000000000000000000000000000")]
    return out


NLIMB = 8


def corner_cases():
    """committed crafted inputs (tools/gen_poly_corners.py): full-size keys and messages whose accumulator enters the final reduction with
    a pending lazy carry in limb 1 (even / odd excess), limbs 2..4 saturated or not, limb 0 within 5 of 2^26 or not - all 32
    combinations, 12 inputs each, three pads each; expected tags are recomputed here by the big-integer model"""
    import json
    import os
    path = os.path.join(os.path.dirname(os.path.dirname(os.path.abspath(__file__))), "models", "kats", "poly_corners.json")
    out = []
    for v in json.load(open(path)):
        key, msg = bytes.fromhex(v["key"]), bytes.fromhex(v["msg"])
        out.append((key, msg))
    return out


def shards(tier):
    ks = keys(tier)
    sh = [("shard_key", i) for i in range(len(ks))]
    sh.append(("shard_crafted", None))
    sh += [("shard_limbs", i) for i in range(NLIMB)]
    if tier == "thorough":
        sh += [("shard_three", i) for i in (1, 4, 14)]
    return sh


def limb_blocks(tier):
    """16-byte block values assembled from 26-bit limb fields (the implementation's radix), each field from a boundary set: the
    values that sit next to a carry out of a limb, in every combination"""
    m26 = (1 << 26) - 1
    f0 = (0, 1, 5, m26 - 5, m26 - 4, m26 - 1, m26)
    f = (0, 1, m26 - 1, m26)
    f4 = (0, 1, (1 << 24) - 2, (1 << 24) - 1)
    if tier == "thorough":
        f0 = (0, 1, 4, 5, 1 << 25, m26 - 6, m26 - 5, m26 - 4, m26 - 1, m26)
        f = (0, 1, 1 << 25, m26 - 2, m26 - 1, m26)
    out = []
    for a in f0:
        for b in f:
            for c in f:
                for d in f:
                    for e in f4:
                        out.append((a | (b << 26) | (c << 52) | (d << 78) | (e << 104)).to_bytes(16, "little"))
    return out


def limb_cases(tier):
    """accumulator steering: with r = 1 the accumulator is the plain sum of the marked blocks, so the limb-field block set is
    placed (a) as the only block, (b) after one and two zero blocks, (c) after three zero blocks, where the sum passes 2^130 and
    the implementation folds the overflow back as +5 into limb 0 (the only way limb 1 can be left above 26 bits), each with and
    without a short tail block; r = 2, 4, 5 shift and scale the same fields across the limb borders"""
    z = bytes(16)
    keys = [(1).to_bytes(16, "little") + bytes(16), (1).to_bytes(16, "little") + b"\xff" * 16, (2).to_bytes(16, "little") + pat(7, 0, 16),
            (4).to_bytes(16, "little") + bytes(16), (5).to_bytes(16, "little") + b"\xff" * 16]
    # r = 2^26, 2^52, 2^78, 2^104: multiplication by r rotates the 26-bit limbs (the top one re-entering as 5x), 2^27 and 3*2^26 double /
    # triple them on the way: the same limb-field blocks then meet every carry position with large carries
    keys += [(v).to_bytes(16, "little") + bytes(16) for v in (1 << 26, 1 << 27, 3 << 26, 1 << 52, 1 << 78, 1 << 104)]
    if tier == "thorough":
        keys += [(3).to_bytes(16, "little") + bytes(16), (0x0ffffffc0ffffffc0ffffffc0fffffff).to_bytes(16, "little") + bytes(16),
                 ((1 << 26) | (1 << 52) | (1 << 104)).to_bytes(16, "little") + b"\xff" * 16]
    out = []
    for key in keys:
        for m in limb_blocks(tier):
            for pre in (0, 1, 2, 3):
                for tail in (b"", b"\x00", b"\xff" * 15):
                    out.append((key, z * pre + m + tail))
    return out


def saturated_cases(tier):
    """largest magnitudes: r with every limb at its clamped maximum (and the unclamped all-ones key), message blocks assembled from
    limb fields in {0, max} - every sequence of up to three such blocks (32 + 32^2 + 32^3 messages), so that the unreduced products
    and the carries between limbs are driven to their extremes for several blocks in a row"""
    m26 = (1 << 26) - 1
    blocks = []
    for bits in range(32):
        v = 0
        for i in range(5):
            if bits >> i & 1:
                v |= (m26 if i < 4 else (1 << 24) - 1) << (26 * i)
        blocks.append(v.to_bytes(16, "little"))
    keys = [b"\xff" * 32, (0x0ffffffc0ffffffc0ffffffc0fffffff).to_bytes(16, "little") + bytes(16)]
    out = []
    for key in keys:
        for a in blocks:
            out.append((key, a))
            for b in blocks:
                out.append((key, a + b))
                if tier == "thorough" or key is keys[0]:
                    for c in blocks:
                        out.append((key, a + b + c))
    return out


def _nt(ops, meta):
    return any(o.startswith("minput") and not (o.endswith(":0") or o.endswith("h:")) for o in ops)


def prog(keyarg, chunks, final):
    return ["mnew s0 poly1305 %s" % keyarg] + ["minput s0 %s" % c for c in chunks] + [final]


def shard_key(i, tier):
    ck = core.Checker(PROPERTY_ID)
    key = keys(tier)[i]
    karg = H(key)
    cases = []
    pats = (5, 1, 2) if tier == "thorough" else (5, 1)
    for k in pats:
        for n in range(0, (161 if tier == "thorough" else 81)):
            msg = pat(k, 3, n)
            tag = obs_of(poly.poly1305(key, msg))
            cases.append((prog(karg, [P(k, 3, n)], "mraw s0"), ["-", "-", tag], None))
            cases.append((prog(karg, [P(k, 3, n)], "mresult s0"), ["-", "-", tag], None))
            for cut in range(0, n + 1):
                cases.append((prog(karg, [P(k, 3, cut), P(k, 3 + cut, n - cut)], "mraw s0"), ["-", "-", "-", tag], None))
    # every sequence of <= 3 chunks over the staging-buffer alphabet
    A = (0, 1, 15, 16, 17, 33)
    for a in A:
        for b in A:
            for c in A:
                msg = pat(6, 0, a + b + c)
                tag = obs_of(poly.poly1305(key, msg))
                cases.append((prog(karg, [P(6, 0, a), P(6, a, b), P(6, a + b, c)], "mraw s0"), ["-", "-", "-", "-", tag], None))
    ck.run(cases, nontrivial=_nt)
    ck.stats.states = len(cases) + 1
    return ck.stats


def shard_crafted(_, tier):
    ck = core.Checker(PROPERTY_ID)
    cases = []
    ks = [(1).to_bytes(16, "little") + bytes(16), (1).to_bytes(16, "little") + b"\xff" * 16, (2).to_bytes(16, "little") + bytes(16),
          (2).to_bytes(16, "little") + b"\xff" * 16, bytes.fromhex("01000000000000000400000000000000") + bytes(16),
          b"\xff" * 32, pat(5, 0, 32)]
    for key in ks:
        for msg in crafted():
            tag = obs_of(poly.poly1305(key, msg))
            cases.append((prog(H(key), [H(msg)], "mraw s0"), ["-", "-", tag], None))
            for cut in range(0, len(msg) + 1):
                cases.append((prog(H(key), [H(msg[:cut]), H(msg[cut:])], "mresult s0"), ["-", "-", "-", tag], None))
    # long messages
    # long runs of saturated blocks under saturated keys (lazily carried limbs grow block after block), and long patterned messages
    for key in (b"\xff" * 32, (0x0ffffffc0ffffffc0ffffffc0fffffff).to_bytes(16, "little") + b"\xff" * 16):
        for k, n in ((1, 8640), (1, 16384), (1, 65536), (5, 65536), (1, 16 * 539 + 7)):
            tag = obs_of(poly.poly1305(key, pat(k, 0, n)))
            cases.append((prog(H(key), [P(k, 0, n)], "mraw s0"), ["-", "-", tag], None))
    for n in (255, 256, 257, 1024, 4095, 4096):
        for key in (pat(5, 0, 32), b"\xff" * 32):
            tag = obs_of(poly.poly1305(key, pat(7, 0, n)))
            cases.append((prog(H(key), [P(7, 0, n)], "mraw s0"), ["-", "-", tag], None))
            cases.append((prog(H(key), [P(7, 0, 100), P(7, 100, n - 100)], "mraw s0"), ["-", "-", "-", tag], None))
    # tags that are all zero are tags like any other (r = 0 and s = 0 for any message; s = 0 and the empty message for any r; s = -poly(m))
    for key, msg in ((bytes(32), b""), (bytes(32), pat(5, 0, 16)), (bytes(32), pat(5, 0, 33)), (pat(5, 0, 16) + bytes(16), b""), (b"\xff" * 16 + bytes(16), b"")):
        z = obs_of(poly.poly1305(key, msg))
        assert z == "00" * 16
        cases.append((prog(H(key), [H(msg) if msg else "h:"], "mresult s0"), ["-", "-", z], None))
        cases.append((prog(H(key), [H(msg) if msg else "h:"], "mraw s0"), ["-", "-", z], None))
    for r_, msg in ((pat(5, 0, 16), pat(6, 0, 21)), ((1).to_bytes(16, "little"), pat(6, 0, 16))):
        t = int.from_bytes(poly.poly1305(r_ + bytes(16), msg), "little")
        key = r_ + ((-t) % (1 << 128)).to_bytes(16, "little")
        z = obs_of(poly.poly1305(key, msg))
        assert z == "00" * 16
        cases.append((prog(H(key), [H(msg)], "mresult s0"), ["-", "-", z], None))
    # asking twice, and starting over: a second result repeats the tag or refuses loudly (never other bytes), and after reset - whether
    # a tag was taken or input was abandoned mid-block - the object computes the tag of exactly the bytes that follow
    key = pat(5, 0, 32)
    for n in (0, 1, 15, 16, 17, 20, 32, 33, 64):
        msg = pat(6, 2, n)
        tag = obs_of(poly.poly1305(key, msg))
        a1 = P(6, 2, n) if n else "h:"
        cases.append((prog(H(key), [a1], "mraw s0") + ["mraw s0", "mresult s0"], ["-", "-", tag, (tag, "PANIC"), (tag, "PANIC")], None))
        for n2 in (0, 1, 5, 15, 16, 21, 40):
            t2 = obs_of(poly.poly1305(key, pat(7, 1, n2)))
            a2 = P(7, 1, n2) if n2 else "h:"
            cases.append((prog(H(key), [a1], "mreset s0") + ["minput s0 %s" % a2, "mraw s0"], ["-", "-", "-", "-", t2], None))
            cases.append((prog(H(key), [a1], "mraw s0") + ["mreset s0", "minput s0 %s" % a2, "mresult s0", "mreset s0", "minput s0 %s" % a1, "mraw s0"],
                          ["-", "-", tag, "-", "-", t2, "-", "-", tag], None))
    ck.run(cases, nontrivial=_nt)
    ck.stats.states = len(cases)
    return ck.stats


def shard_limbs(i, tier):
    ck = core.Checker(PROPERTY_ID)
    cases = []
    for j, (key, msg) in enumerate(limb_cases(tier) + saturated_cases(tier) + corner_cases()):
        if j % NLIMB != i:
            continue
        tag = obs_of(poly.poly1305(key, msg))
        cases.append((prog(H(key), [H(msg)], "mraw s0"), ["-", "-", tag], None))
    ck.run(cases, nontrivial=_nt)
    ck.stats.states = len(cases)
    return ck.stats


def shard_three(i, tier):
    ck = core.Checker(PROPERTY_ID)
    key = keys(tier)[i]
    karg = H(key)
    cases = []
    for n in range(0, 51):
        tag = obs_of(poly.poly1305(key, pat(5, 3, n)))
        for c1 in range(0, n + 1):
            for c2 in range(c1, n + 1):
                cases.append((prog(karg, [P(5, 3, c1), P(5, 3 + c1, c2 - c1), P(5, 3 + c2, n - c2)], "mraw s0"), ["-", "-", "-", "-", tag], None))
    ck.run(cases, nontrivial=_nt)
    ck.stats.states = len(cases)
    return ck.stats
