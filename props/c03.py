"""C03 - ChaCha and Salsa families produce exactly the specified keystream."""
from mc import core
from mc.patterns import pat, P, H, obs_of
from models import stream, selfcheck

PROPERTY_ID = "C03"
RULE = ("one-step programs (new [; seek | hook counter preset] ; process): full product of variant x rounds{8,12,20} x key length x "
        "key pattern x nonce pattern x starting block (incl. 2^32-2, 2^32-1 and, through the hook, 64-bit low/high word boundaries; additionally every start 2^k-1, 2^k-2 so that the increment carries out of every bit position) x "
        "data length {0,1,63,64,65,128,129,193} x data pattern, compared with python models of RFC 8439 / Bernstein / XChaCha / XSalsa; "
        "every data length 0..=200 at three cursor alignments for every variant; seek histories (seek;seek and seek;process(l);seek over 10 positions incl. ones differing in the high half) for the 32-bit-counter variants; the same grid is run on the portable ChaCha engine through the hook wrapper; non-trivial = data length > 0; distinct = program text")
ASSUMPTIONS = ["python keystream models validated by RFC 8439 2.3.2/2.4.2, draft-irtf-cfrg-xchacha 2.2.1/A.3.2, ECRYPT Salsa20 vectors and OpenSSL cross vectors",
               "XChaCha uses the 32-bit block counter of draft-irtf-cfrg-xchacha (the crate's seek(u32) and the property's hook list agree)",
               "key, nonce and data content come from the fixed pattern alphabet"]

VARIANTS = {  # name: (key lengths, nonce length, counter bits)
    "chacha": ((32, 16), 12, 32),
    "chachao": ((32, 16), 8, 64),
    "xchacha": ((32,), 24, 32),
    "salsa": ((32, 16), 8, 64),
    "xsalsa": ((32,), 24, 64),
}
LENS = (0, 1, 63, 64, 65, 128, 129, 193)
M32 = 0xFFFFFFFF


def builds_needed(tier):
    return ["rel"]


# Own corpus re-run on other builds of the crate (mc/core.py: extra builds). Every observation is compared with the same model.
def extra_builds(tier):
    return [("relchk", None), ("sse41", None), ("native", None), ("fe32", None), ("nosse2", None)]



def bounds(tier):
    return {"rounds": [8, 12, 20], "key_patterns": 7 if tier == "thorough" else 3, "nonce_patterns": 5 if tier == "thorough" else 2,
            "data_lengths": list(lens(tier)), "start_blocks_32": [0, 1, 2 ** 32 - 2, 2 ** 32 - 1],
            "start_blocks_64": "low in {0,2^32-2,2^32-1} x high in {0,1,2^32-1}",
            "every_length": "0..=%d at cursor offsets 0, 1, 61" % (520 if tier == "thorough" else 200), "seek_histories": "seek;seek and seek;process(l);seek over 10 x 10 positions",
            "counter_bits": "start blocks 2^k-1, 2^k-2 for every k"}


def validate_models(tier):
    selfcheck.check_stream()


def starts(bits):
    if bits == 32:
        return [None, 0, 1, M32 - 1, M32]
    out = [None]
    for hi in (0, 1, M32):
        for lo in (0, M32 - 1, M32):
            out.append((hi << 32) | lo)
    return out


def shard_counterbits(arg, tier):
    """block counter increments across every bit boundary: start at 2^k - 1 and run 129 bytes (carry out of every bit position)"""
    v, r = arg
    keylens, nlen, bits = VARIANTS[v]
    ck = core.Checker(PROPERTY_ID)
    cases = []
    key, nonce = pat(5, 0, keylens[0]), pat(7, 3, nlen)
    st = stream.Stream(v, r, key, nonce)
    for k in range(1, bits + 1):
        for s0 in ((1 << k) - 1, ((1 << k) - 2) & ((1 << bits) - 1), (0x5555555555555555 & ((1 << bits) - 1)) | ((1 << k) - 1)):
            exp = obs_of(st.keystream(s0, 0, 193))
            cases.append((["cnew s0 %s %d %s %s" % (v, r, P(5, 0, keylens[0]), P(7, 3, nlen)), ("seek s0 %d" if bits == 32 else "setctr64 s0 %d") % s0,
                           "process_mut s0 %s" % P(0, 0, 193)], ["-", "-", exp], {"n": 193}))
            if v in ("chacha", "chachao") and k <= 32:
                mode = 32 if bits == 32 else 64
                cases.append((["pchacha %d %s %s %d %d 3" % (r, P(5, 0, keylens[0]), P(7, 3, nlen), s0, mode)], [obs_of(st.keystream(s0, 0, 192))], {"n": 192}))
    ck.run(cases, nontrivial=_nt)
    ck.stats.states = len(cases)
    return ck.stats


def shards(tier):
    sh = []
    for v in VARIANTS:
        for r in (8, 12, 20):
            sh.append(("shard_ctx", (v, r)))
            if r == 20 or tier == "thorough":
                sh.append(("shard_counterbits", (v, r)))
    for r in (8, 12, 20):
        sh.append(("shard_portable", r))
        sh.append(("shard_seekhist", r))
    sh.append(("shard_everylen", None))
    return sh


def shard_everylen(_, tier):
    """every data length 0..=200 (thorough 0..=520) in one call, fresh and after 1 / 61 already consumed bytes, in place and buffer to
    buffer: every residue of the length modulo 8/16/32/64 at three alignments of the keystream cursor (word-at-a-time XOR loops)"""
    ck = core.Checker(PROPERTY_ID)
    cases = []
    top = 521 if tier == "thorough" else 201
    for v, (keylens, nlen, bits) in VARIANTS.items():
        kl = keylens[0]
        st = stream.Stream(v, 20, pat(5, 0, kl), pat(7, 3, nlen))
        new = "cnew s0 %s 20 %s %s" % (v, P(5, 0, kl), P(7, 3, nlen))
        for pre in (0, 1, 61):
            for n in range(0, top):
                data = pat(6, 3, n)
                exp = obs_of(stream.xor(data, st.keystream(0, pre, n)))
                ops, e = [new], ["-"]
                if pre:
                    ops.append("process_mut s0 %s" % P(0, 0, pre))
                    e.append(None)
                ops.append("%s s0 %s" % ("process" if n % 2 else "process_mut", P(6, 3, n) if n else "h:"))
                e.append(exp)
                cases.append((ops, e, {"n": n}))
    ck.run(cases, nontrivial=_nt)
    ck.stats.states = len(cases)
    return ck.stats


def shard_seekhist(r, tier):
    """the counter is *set*, not merged: seek after seek, seek after processed data (block-aligned or mid-block), seek to positions whose
    high half differs from the current one; the next bytes are block n from byte 0"""
    ck = core.Checker(PROPERTY_ID)
    cases = []
    S = (0, 1, 2, 5, 7, 0xffff, 0x10000, 0x12345, 0xfffe0003, 0xffffffff)
    for v, kl, nl in (("chacha", 32, 12), ("chacha", 16, 12), ("xchacha", 32, 24)):
        st = stream.Stream(v, r, pat(5, 0, kl), pat(7, 3, nl))
        new = "cnew s0 %s %d %s %s" % (v, r, P(5, 0, kl), P(7, 3, nl))
        for a in S:
            for b in S:
                cases.append(([new, "seek s0 %d" % a, "seek s0 %d" % b, "process s0 %s" % P(0, 0, 130)], ["-", "-", "-", obs_of(st.keystream(b, 0, 130))], {"n": 130}))
            for l1 in (1, 63, 64, 65, 128):
                for b in S:
                    cases.append(([new, "seek s0 %d" % a, "process_mut s0 %s" % P(0, 0, l1), "seek s0 %d" % b, "process s0 %s" % P(0, 0, 65)],
                                  ["-", "-", obs_of(st.keystream(a, 0, l1)), "-", obs_of(st.keystream(b, 0, 65))], {"n": 65}))
    ck.run(cases, nontrivial=_nt)
    ck.stats.states = len(cases)
    return ck.stats


def _nt(ops, meta):
    return bool(meta and meta.get("n", 0) > 0)


def key_patterns(tier):
    return (5, 1, 0, 6, 2, 4, 3) if tier == "thorough" else (5, 1, 0)


def nonce_patterns(tier):
    return (7, 0, 1, 2, 4) if tier == "thorough" else (7, 1)


def lens(tier):
    return LENS + ((2, 62, 66, 127, 191, 192, 255, 256, 257, 321, 1025) if tier == "thorough" else ())


def shard_ctx(arg, tier):
    v, r = arg
    keylens, nlen, bits = VARIANTS[v]
    ck = core.Checker(PROPERTY_ID)
    cases = []
    for kl in keylens:
        for kp in key_patterns(tier):
            key = pat(kp, 0, kl)
            for np_ in nonce_patterns(tier):
                nonce = pat(np_, 3, nlen)
                st = stream.Stream(v, r, key, nonce)
                for s0 in starts(bits):
                    for n in lens(tier):
                        for dp in (0, 5):
                            data = pat(dp, 11, n)
                            exp = obs_of(stream.xor(data, st.keystream(s0 or 0, 0, n)))
                            ops = ["cnew s0 %s %d %s %s" % (v, r, P(kp, 0, kl), P(np_, 3, nlen))]
                            e = ["-"]
                            if s0 is not None:
                                ops.append(("seek s0 %d" if bits == 32 else "setctr64 s0 %d") % s0)
                                e.append("-")
                            ops.append("%s s0 %s" % ("process" if dp == 0 else "process_mut", P(dp, 11, n)))
                            e.append(exp)
                            cases.append((ops, e, {"n": n}))
    ck.run(cases, nontrivial=_nt)
    ck.stats.states = len(cases) + 1
    return ck.stats


def shard_portable(r, tier):
    """the portable engine (dead code on x86-64 without the hook) driven like the contexts drive their engine"""
    ck = core.Checker(PROPERTY_ID)
    cases = []
    for kl in (32, 16):
        for kp in key_patterns(tier):
            key = pat(kp, 0, kl)
            for np_ in nonce_patterns(tier):
                # 12-byte nonce, 32-bit counter: IETF
                n12 = pat(np_, 3, 12)
                st = stream.Stream("chacha", r, key, n12)
                for s0 in starts(32):
                    exp = obs_of(st.keystream(s0 or 0, 0, 4 * 64))
                    cases.append((["pchacha %d %s %s %s 32 4" % (r, P(kp, 0, kl), P(np_, 3, 12), "none" if s0 is None else s0)], [exp], {"n": 256}))
                # 8-byte nonce, 64-bit counter: original
                n8 = pat(np_, 3, 8)
                st = stream.Stream("chachao", r, key, n8)
                for s0 in starts(64):
                    exp = obs_of(st.keystream(s0 or 0, 0, 4 * 64))
                    cases.append((["pchacha %d %s %s %s 64 4" % (r, P(kp, 0, kl), P(np_, 3, 8), "none" if s0 is None else s0)], [exp], {"n": 256}))
                # 16-byte nonce: HChaCha
                n16 = pat(np_, 3, 16)
                cases.append((["phchacha %d %s %s" % (r, P(kp, 0, kl), P(np_, 3, 16))], [obs_of(stream.hchacha(key, n16, r))], {"n": 32}))
                if kl == 32:
                    # XChaCha through the portable engine: HChaCha subkey, then 8-byte nonce with the 32-bit counter
                    n24 = pat(np_, 3, 24)
                    sub = stream.hchacha(key, n24[:16], r)
                    st = stream.Stream("xchacha", r, key, n24)
                    for s0 in starts(32):
                        exp = obs_of(st.keystream(s0 or 0, 0, 4 * 64))
                        cases.append((["pchacha %d %s %s %s 32 4" % (r, H(sub), H(n24[16:]), "none" if s0 is None else s0)], [exp], {"n": 256}))
    ck.run(cases, nontrivial=_nt)
    ck.stats.states = len(cases) + 1
    return ck.stats
