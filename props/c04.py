"""C04 - stream position semantics: chunking, involution, seek, clone; the DRG."""
from mc import core, explorer
from mc.patterns import pat, P, H, obs_of
from models import stream, selfcheck

PROPERTY_ID = "C04"
RULE = ("explicit-state BFS over histories of stream-cipher contexts: letters process(l), process_mut(l) for l in {0,1,63,64,65,129}, "
        "seek(n) for n in {0,1,5,2^32-1} (ChaCha, XChaCha), fork (clone), up to 2 live contexts; every output must equal input XOR the "
        "model keystream at the model's absolute position and in every state the next 65 keystream bytes of a clone must equal the model's; "
        "tree mode = every letter sequence to the depth bound, graph mode = merge on ((block, offset), observed next-65-bytes) until the "
        "frontier is empty within 4 blocks + 1 consumed per seek; involution is checked with a second context fed the model ciphertext; "
        "DRG: every sequence of {bytes<N>, fill_bytes<N>(prior), fill_slice(l, prior), u32, u64} to the depth bound against a cursor into "
        "the ChaCha<R>(seed, 0) keystream with prior buffer contents {00.., FF.., pattern}; non-trivial = some call with length > 0"
        " Also: every DRG request size 0..=140 at cursor 0 and 4 for rounds 8/12/20; buffer placement: after a first piece of every length class mod 8, a second piece of every length 1..=24 (+30, 63, 64, 65, 130) whose buffer starts at every address offset mod 8 (+8, 16, 33) from a 64-byte boundary, in place and with separate input / output buffers at equal and at different offsets, and the DRG's fill_slice likewise; the corpus again on the build without SSE2 (the portable engines selected by the crate itself) and on the checked-arithmetic, +sse4.1 and native builds."
        " Interference: one history per object type with the programs of every other object type (25 bystander programs: hash contexts, one-shots, MACs, legacy digests, stream ciphers, DRG, AEAD, KDFs, Argon2, X25519, Ed25519) woven between its steps, round-robin and whole-program-after-every-step."
        " Many calls: 66000 one-byte / three-byte / empty process calls on one context of every variant.")
ASSUMPTIONS = ["python keystream models as in C03", "DRG u32/u64 are the next 4/8 keystream bytes read big-endian (documented convention of this commit)",
               "content alphabet for keys, nonces, seeds, inputs and prior buffer contents"]

LENS = (0, 1, 63, 64, 65, 129)
SEEKS = (0, 1, 5, 0xFFFFFFFF)
VARIANTS = {"chacha": (32, 12, 32), "chachao": (16, 8, 64), "xchacha": (32, 24, 32), "salsa": (32, 8, 64), "xsalsa": (32, 24, 64)}


def builds_needed(tier):
    return ["rel"]


# Own corpus re-run on other builds of the crate (mc/core.py: extra builds). Every observation is compared with the same model.
def extra_builds(tier):
    return [("relchk", None), ("sse41", None), ("native", None), ("fe32", None), ("nosse2", None)]



def bounds(tier):
    return {"cipher_tree_depth": 4 if tier == "thorough" else 3, "cipher_graph_bytes_per_seek": 257,
            "cipher_graph_seeks": 2 if tier == "thorough" else 1, "drg_tree_depth": 3,
            "drg_letters": 58 if tier == "thorough" else 32, "drg_every_size": "0..=140 at cursor 0 and 4, rounds 8/12/20",
            "buffer_address_offsets": list(ALIGNS), "placement_second_piece_lengths": "1..=24, 30, 63, 64, 65, 130", "placement_first_piece": [0, 1, 3, 5, 7, 8, 13, 17]}


def validate_models(tier):
    selfcheck.check_stream()


class CipherSystem:
    def __init__(self, variant, rounds, tier, graph=False, keylen=None):
        kl, nl, bits = VARIANTS[variant]
        kl = keylen or kl
        self.variant, self.rounds, self.bits = variant, rounds, bits
        self.name = "%s/%d/k%d" % (variant, rounds, kl)
        self.karg, self.narg = P(6, 1, kl), P(7, 2, nl)
        self.model = stream.Stream(variant, rounds, pat(6, 1, kl), pat(7, 2, nl))
        self.graph = graph
        self.tier = tier
        self.seekable = bits == 32
        self.max_seeks = 2 if tier == "thorough" else 1

    def initial(self):
        # model context: (block, offset, consumed since seek, seeks)
        return ((0, 0, 0, 0), None), ["cnew s0 %s %d %s %s" % (self.variant, self.rounds, self.karg, self.narg)], ["-"]

    def terminal(self, m):
        return False

    def letters(self, m, depth):
        out = []
        for i in (0, 1):
            c = m[i]
            if c is None:
                continue
            for l in LENS:
                if self.graph and c[2] + l > 257:
                    continue
                out.append(("p", i, l))
                out.append(("m", i, l))
            if self.seekable and (not self.graph or c[3] < self.max_seeks):
                for n in SEEKS:
                    out.append(("s", i, n))
        if not self.graph and m[1] is None:
            out.append(("k",))
        return out

    def advance(self, c, l):
        block, off, cons, seeks = c
        tot = off + l
        block = (block + tot // 64) & ((1 << self.bits) - 1)
        return (block, tot % 64, cons + l, seeks)

    def step(self, m, letter):
        m = list(m)
        if letter[0] == "k":
            m[1] = m[0]
            return tuple(m), ["cclone s0 s1"], ["-"]
        op, i, x = letter
        c = m[i]
        if op == "s":
            m[i] = (x, 0, 0, c[3] + 1)
            return tuple(m), ["seek s%d %d" % (i, x)], ["-"]
        # input content depends on the stream position so that merged states agree on it
        off = (c[0] * 64 + c[1]) % 4093
        data = pat(5, off, x)
        out = stream.xor(data, self.model.keystream(c[0], c[1], x))
        m[i] = self.advance(c, x)
        return tuple(m), ["%s s%d %s" % ("process" if op == "p" else "process_mut", i, P(5, off, x))], [obs_of(out)]

    def probes(self, m):
        ops, exp = [], []
        for i in (0, 1):
            c = m[i]
            if c is None:
                continue
            ops.append("cprobe s%d 65" % i)
            exp.append(obs_of(self.model.keystream(c[0], c[1], 65)))
        return ops, exp

    def key(self, m):
        return tuple(None if c is None else (c[0], c[1], c[2] if self.graph else 0, c[3]) for c in m)


class DrgSystem:
    def __init__(self, rounds, seedpat, tier):
        self.rounds = rounds
        self.seedarg = P(seedpat, 0, 32)
        self.model = stream.Stream("chacha", rounds, pat(seedpat, 0, 32), bytes(12))
        self.name = "drg/%d/seed%d" % (rounds, seedpat)
        if tier == "thorough":
            self.N = (0, 1, 4, 8, 25, 63, 64, 65)
            self.priors = (0, 1, 5)
        else:
            self.N = (0, 1, 8, 63, 64, 65)
            self.priors = (0, 1)

    def initial(self):
        return 0, ["drgnew s0 %d %s" % (self.rounds, self.seedarg)], ["-"]

    def terminal(self, m):
        return False

    def letters(self, m, depth):
        out = [("u32",), ("u64",)]
        for n in self.N:
            out.append(("b", n))
            for p in self.priors:
                out.append(("fb", n, p))
                out.append(("fs", n, p))
        return out

    def ks(self, cur, n):
        return self.model.keystream(cur // 64, cur % 64, n)

    def step(self, cur, letter):
        op = letter[0]
        if op == "u32":
            return cur + 4, ["drg_u32 s0"], [str(int.from_bytes(self.ks(cur, 4), "big"))]
        if op == "u64":
            return cur + 8, ["drg_u64 s0"], [str(int.from_bytes(self.ks(cur, 8), "big"))]
        n = letter[1]
        exp = obs_of(self.ks(cur, n))
        if op == "b":
            return cur + n, ["drg_bytes s0 %d" % n], [exp]
        prior = P(letter[2], cur % 300, n)
        if op == "fb":
            return cur + n, ["drg_fill_bytes s0 %s" % prior], [exp]
        return cur + n, ["drg_fill_slice s0 %s" % prior], [exp]

    def probes(self, m):
        return [], []

    def key(self, m):
        return m


def _nt(ops, meta):
    for o in ops:
        t = o.split()
        if t[0] in ("process", "process_mut", "drg_fill_bytes", "drg_fill_slice") and not t[-1].endswith(":0"):
            return True
        if t[0] == "drg_bytes" and t[-1] != "0":
            return True
        if t[0] in ("drg_u32", "drg_u64"):
            return True
    return False


def _own_shards(tier):
    sh = []
    for v in VARIANTS:
        for r in (8, 12, 20):
            sh.append(("shard_tree", (v, r)))
            sh.append(("shard_graph", (v, r)))
    for r in (8, 12, 20):
        for seed in (5, 1):
            sh.append(("shard_drg", (r, seed)))
    sh.append(("shard_involution", None))
    sh.append(("shard_drg_sizes", None))
    for v in VARIANTS:
        sh.append(("shard_align", (v, 20)))
    sh.append(("shard_interference", None))
    sh.append(("shard_many_calls", None))
    return sh


def shard_drg_sizes(_, tier):
    """every request size 0..=140 through fill_slice (prior content FF.. and pattern), fresh and after a u32 (cursor at 4): every
    residue of the size modulo 8/16/64 at two cursor alignments; bytes<N> / fill_bytes<N> for every instantiated N"""
    ck = core.Checker(PROPERTY_ID)
    cases = []
    for rounds in (8, 12, 20):
        model = stream.Stream("chacha", rounds, pat(5, 0, 32), bytes(12))
        new = "drgnew s0 %d %s" % (rounds, P(5, 0, 32))
        for n in range(0, 141):
            for prior in (1, 5):
                exp = obs_of(model.keystream(0, 0, n))
                cases.append(([new, "drg_fill_slice s0 %s" % (P(prior, 7, n) if n else "h:")], ["-", exp], {"n": n}))
                exp4 = obs_of(model.keystream(0, 4, n))
                cases.append(([new, "drg_u32 s0", "drg_fill_slice s0 %s" % (P(prior, 7, n) if n else "h:"), "drg_u64 s0"],
                              ["-", str(int.from_bytes(model.keystream(0, 0, 4), "big")), exp4, str(int.from_bytes(model.keystream((4 + n) // 64, (4 + n) % 64, 8), "big"))], {"n": n}))
    ck.run(cases, nontrivial=_nt)
    ck.stats.states += len(cases)
    return ck.stats


ALIGNS = (0, 1, 2, 3, 4, 5, 6, 7, 8, 16, 33)


def shard_align(arg, tier):
    """where the caller's buffers lie in memory: after a first piece of every length class modulo 8 (so that the cached keystream is
    entered at every offset class), a second piece of every length 1..=24 (and block-crossing ones) in a buffer placed at every
    address offset modulo 8 (and 8, 16, 33) from a 64-byte boundary - in place, and with separate input / output buffers at
    different offsets; the DRG's fill_slice the same way"""
    v, rounds = arg
    ck = core.Checker(PROPERTY_ID)
    kl, nl, bits = VARIANTS[v]
    model = stream.Stream(v, rounds, pat(6, 1, kl), pat(7, 2, nl))
    new = "cnew s0 %s %d %s %s" % (v, rounds, P(6, 1, kl), P(7, 2, nl))
    lens = tuple(range(1, 25)) + (30, 63, 64, 65, 130)
    cases = []
    for pre in (0, 1, 3, 5, 7, 8, 13, 17):
        first = ["process_mut s0 %s" % P(5, 0, pre)] if pre else []
        e1 = [obs_of(stream.xor(pat(5, 0, pre), model.keystream(0, 0, pre)))] if pre else []
        for a in ALIGNS:
            for n in lens:
                exp = obs_of(stream.xor(pat(5, 40, n), model.keystream(pre // 64, pre % 64, n)))
                cases.append(([new] + first + ["process_mut s0 @%d:%s" % (a, P(5, 40, n))], ["-"] + e1 + [exp], {"a": a}))
                cases.append(([new] + first + ["process s0 @%d:%s - %d" % (a, P(5, 40, n), a)], ["-"] + e1 + [exp], {"a": a}))
                cases.append(([new] + first + ["process s0 @%d:%s - %d" % ((a + 3) % 8, P(5, 40, n), a)], ["-"] + e1 + [exp], {"a": a}))
    if v == "chacha":
        dm = stream.Stream("chacha", rounds, pat(5, 0, 32), bytes(12))
        dnew = "drgnew s0 %d %s" % (rounds, P(5, 0, 32))
        for a in ALIGNS:
            for n in range(1, 41):
                cases.append(([dnew, "drg_u32 s0", "drg_fill_slice s0 @%d:%s" % (a, P(1, 7, n))],
                              ["-", str(int.from_bytes(dm.keystream(0, 0, 4), "big")), obs_of(dm.keystream(0, 4, n))], {"n": n}))
                cases.append(([dnew, "drg_fill_slice s0 @%d:%s" % (a, P(1, 7, n)), "drg_fill_slice s0 @%d:%s" % ((a + 5) % 8, P(5, 7, 19))],
                              ["-", obs_of(dm.keystream(0, 0, n)), obs_of(dm.keystream(n // 64, n % 64, 19))], {"n": n}))
    ck.run(cases, nontrivial=_nt)
    ck.stats.states += len(cases)
    return ck.stats


def shard_interference(_, tier):
    """a position history of every variant (process, seek where there is one, process_mut, clone, probe) with the programs of every other
    object type (props/common.py: bystanders) woven between its steps, two ways"""
    from .common import interference_cases
    ck = core.Checker(PROPERTY_ID)
    own = []
    for v, (kl, nl, bits) in VARIANTS.items():
        model = stream.Stream(v, 20, pat(6, 1, kl), pat(7, 2, nl))
        ops = ["cnew s0 %s 20 %s %s" % (v, P(6, 1, kl), P(7, 2, nl)), "process s0 %s" % P(5, 0, 5)]
        exp = ["-", obs_of(stream.xor(pat(5, 0, 5), model.keystream(0, 0, 5)))]
        blk, off = 0, 5
        if bits == 32:
            ops.append("seek s0 7")
            exp.append("-")
            blk, off = 7, 0
        ops += ["process_mut s0 %s" % P(5, 9, 70), "cclone s0 s1", "process_mut s1 %s" % P(5, 3, 60), "cprobe s0 65"]
        exp += [obs_of(stream.xor(pat(5, 9, 70), model.keystream(blk, off, 70))), "-",
                obs_of(stream.xor(pat(5, 3, 60), model.keystream(blk + (off + 70) // 64, (off + 70) % 64, 60))),
                obs_of(model.keystream(blk + (off + 70) // 64, (off + 70) % 64, 65))]
        own.append((ops, exp, None))
    dm = stream.Stream("chacha", 20, pat(5, 0, 32), bytes(12))
    own.append((["drgnew s0 20 %s" % P(5, 0, 32), "drg_u32 s0", "drg_fill_slice s0 %s" % P(1, 7, 70), "drg_u64 s0"],
                ["-", str(int.from_bytes(dm.keystream(0, 0, 4), "big")), obs_of(dm.keystream(0, 4, 70)), str(int.from_bytes(dm.keystream(1, 10, 8), "big"))], None))
    cs = interference_cases(own)
    ck.run(cs, nontrivial=lambda ops, meta: True)
    ck.stats.states += len(cs)
    return ck.stats


def shard_many_calls(_, tier):
    """very many calls on one context: 66000 one-byte and three-byte calls (more than 2^16 calls, more than 1000 blocks), 66000 empty
    calls between real ones; the answer of the last call and the next 65 keystream bytes are compared with the model position"""
    ck = core.Checker(PROPERTY_ID)
    cases = []
    n = 66000
    for v, (kl, nl, bits) in VARIANTS.items():
        model = stream.Stream(v, 20, pat(6, 1, kl), pat(7, 2, nl))
        new = "cnew s0 %s 20 %s %s" % (v, P(6, 1, kl), P(7, 2, nl))
        for w in (1, 3):
            pos = (n - 1) * w
            last = stream.xor(pat(5, 0, w), model.keystream(pos // 64, pos % 64, w))
            end = n * w
            cases.append(([new, "process_rep s0 %s %d" % (P(5, 0, w), n), "cprobe s0 65"], ["-", obs_of(last), obs_of(model.keystream(end // 64, end % 64, 65))], None))
        cases.append(([new, "process_rep s0 h: %d" % n, "process_mut s0 %s" % P(5, 0, 5), "process_rep s0 h: %d" % n, "cprobe s0 65"],
                      ["-", "e", obs_of(stream.xor(pat(5, 0, 5), model.keystream(0, 0, 5))), "e", obs_of(model.keystream(0, 5, 65))], None))
    ck.run(cases, nontrivial=lambda ops, meta: True)
    ck.stats.states += len(cases)
    return ck.stats


def _mk(ck):
    real = ck.run
    ck.run = lambda cases, nontrivial=True, count_trace=True: real(cases, nontrivial=_nt, count_trace=count_trace)


def shard_tree(arg, tier):
    ck = core.Checker(PROPERTY_ID)
    _mk(ck)
    explorer.explore(CipherSystem(arg[0], arg[1], tier), ck, "tree", 4 if tier == "thorough" else 3)
    return ck.stats


def shard_graph(arg, tier):
    ck = core.Checker(PROPERTY_ID)
    _mk(ck)
    n = explorer.explore(CipherSystem(arg[0], arg[1], tier, graph=True), ck, "graph", 100000)
    ck.stats.extra["graph_states"] = n
    return ck.stats


def shard_drg(arg, tier):
    ck = core.Checker(PROPERTY_ID)
    _mk(ck)
    explorer.explore(DrgSystem(arg[0], arg[1], tier), ck, "tree", 3)
    return ck.stats


def shard_involution(_, tier):
    """a second context with the same parameters applied to the (model) ciphertext returns the input"""
    ck = core.Checker(PROPERTY_ID)
    cases = []
    for v, (kl, nl, bits) in VARIANTS.items():
        for r in (8, 12, 20):
            for klen in ((32, 16) if v in ("chacha", "chachao", "salsa") else (32,)):
                key, nonce = pat(6, 1, klen), pat(7, 2, nl)
                st = stream.Stream(v, r, key, nonce)
                for n in (0, 1, 63, 64, 65, 129, 257):
                    data = pat(5, 9, n)
                    ct = stream.xor(data, st.keystream(0, 0, n))
                    new = "cnew s%%d %s %d %s %s" % (v, r, P(6, 1, klen), P(7, 2, nl))
                    cases.append(([new % 0, new % 1, "process s0 %s" % P(5, 9, n), "process_mut s1 %s" % H(ct)],
                                  ["-", "-", obs_of(ct), obs_of(data)], None))
    ck.run(cases, nontrivial=_nt)
    ck.stats.states += len(cases)
    return ck.stats


def shards(tier):
    # a position is (block counter, offset): how the counter itself advances across its word boundaries (hook presets for the 64-bit
    # variants, seek for the 32-bit ones) and the portable engine's counter handling are C03's shards, run here as components
    sh = _own_shards(tier)
    for v in ("chacha", "xchacha", "chachao", "salsa", "xsalsa"):
        sh.append(("shard_c03_component", ("shard_counterbits", (v, 20))))
    sh.append(("shard_c03_component", ("shard_portable", 20)))
    sh.append(("shard_c03_component", ("shard_seekhist", 20)))
    return sh


def shard_c03_component(arg, tier):
    from mc import multi
    return multi.run_component("c03", arg[0], arg[1], tier, PROPERTY_ID)
