"""C18 - constant-time predicates and selectors return the ordinary answer."""
from mc import core
from mc.patterns import pat, P, H, obs_of

PROPERTY_ID = "C18"
RULE = ("bulk and one-step programs on the real helpers: all 2^16 byte pairs for ct_eq/ct_ne and all 256 bytes for ct_zero/ct_nonzero; all ordered pairs over "
        "{2^k, 2^k-1, 2^k+1 : k = 0..64} + 8 patterns for the eight u64 predicates; &[u8;N] for every N 0..=40: equal arrays and arrays differing in exactly one position "
        "(every position, deltas +1, -1, ^0x80) and in two positions with cancelling deltas (every pair of positions for selected N) for ct_eq/ct_ne/ct_zero/ct_nonzero/ct_lt/ct_ge; &[u8], &[u64;N], &[u64] likewise (unequal lengths must panic); Choice "
        "and/or/xor/negate/is_true/is_false/into-bool on all 4 input pairs; CtOption; masked swap/set for every (choice, array pair) over N in {1,4,5,10} and 6 limb "
        "patterns; MacResult == for lengths 0..=40 incl. unequal lengths and every single differing position; Tag == for every single bit, every pair of bits and equal byte deltas in every pair of bytes; oracle = python ==, <, <=; "
        "distinct = program text"
        " Also: a choice of either truth value derived in 17 public ways (negations, comparisons, combinations) through its views, CtOption and the masked swap / set helpers; MacResult lengths 255..65536 and unequal lengths differing by 1, 256, 512, 65536; the corpus again on the checked-arithmetic, +sse4.1 and native builds."
        " Operand placement: byte arrays / slices of every length 1..=40 at every pair of address offsets modulo 8 (+16, 33), equal and differing in the first / middle / last byte.")
ASSUMPTIONS = ["python comparison operators", "byte arrays are compared as big-endian numbers for ct_lt / ct_ge (the documented reading)",
               "slice helpers assert equal lengths: a panic there is a loud refusal, not a wrong answer"]

M64 = (1 << 64) - 1


def builds_needed(tier):
    return ["rel"]


# Own corpus re-run on other builds of the crate (mc/core.py: extra builds). Every observation is compared with the same model.
def extra_builds(tier):
    # the helpers are plain integer code today, but a cfg(target_feature) fast path is exactly the kind of change that would break them
    return [("relchk", None), ("sse41", None), ("native", None), ("fe32", None)]



def bounds(tier):
    return {"u8_pairs": 65536, "u64_values": len(s64()), "array_lengths": "0..=40", "swap_set_N": [1, 4, 5, 10],
            "macresult_lengths": "0..=40, 255..65536, unequal by 1 / 256 / 512 / 65536"}


def s64():
    vals = set()
    for k in range(0, 65):
        for d in (-1, 0, 1):
            vals.add(((1 << k) + d) & M64)
    for k in (5, 6, 7):
        for o in (0, 8, 16):
            vals.add(int.from_bytes(pat(k, o, 8), "little"))
    # every combination of the top four bits over bodies 0 / 1 / all-ones / pattern (sign-bit tricks in borrow formulas),
    # and the same for the low and the high 32-bit half
    body = (0, 1, (1 << 60) - 1, 0x0123456789abcdef & ((1 << 60) - 1))
    for t in range(16):
        for b_ in body:
            vals.add((t << 60) | b_)
    for hi in (0, 1, 0x7fffffff, 0x80000000, 0xffffffff):
        for lo in (0, 1, 0x7fffffff, 0x80000000, 0xffffffff):
            vals.add((hi << 32) | lo)
    return sorted(vals)


def b(x):
    return "T" if x else "F"


def shards(tier):
    return [("shard_tables", None), ("shard_arrays", 0), ("shard_arrays", 1), ("shard_arrays", 2), ("shard_misc", None), ("shard_macres", None), ("shard_placement", None)]


def shard_placement(_, tier):
    """where the two operands lie: byte arrays and slices of every length 1..=40 at every pair of address offsets modulo 8 (and 16, 33)
    from a 64-byte boundary - equal operands, and operands differing in the first, the last and a middle byte (the executor hands the
    helpers references into the placed buffers, it does not copy them)"""
    ck = core.Checker(PROPERTY_ID)
    cases = []
    offs = list(range(8)) + [16, 33]
    for n in range(1, 41):
        base = pat(5, 0, n)
        variants = [base]
        for pos in sorted({0, n // 2, n - 1}):
            m = bytearray(base)
            m[pos] ^= 0x40
            variants.append(bytes(m))
        for oa in offs:
            for ob in offs:
                for m in variants:
                    cases.append((["ct_arr8 @%d:%s @%d:%s" % (oa, H(base), ob, H(m)), "ct_slice8 @%d:%s @%d:%s" % (oa, H(m), ob, H(base))],
                                  [arr8_exp(base, m), b(base == m) + b(base != m)], None))
    ck.run(cases)
    ck.stats.states = len(cases)
    return ck.stats


def shard_tables(_, tier):
    ck = core.Checker(PROPERTY_ID)
    exp = bytearray()
    for x in range(256):
        for y in range(256):
            exp.append((1 if x == y else 0) | ((1 if x != y else 0) << 1))
    for x in range(256):
        exp.append((1 if x == 0 else 0) | ((1 if x != 0 else 0) << 1))
    cases = [(["ct_u8_table"], [bytes(exp).hex()], None)]
    vals = s64()
    e2 = bytearray()
    for x in vals:
        for y in vals:
            e2.append((x == 0) | (x != 0) << 1 | (x == y) << 2 | (x != y) << 3 | (x < y) << 4 | (x > y) << 5 | (x <= y) << 6 | (x >= y) << 7)
    cases.append((["ct_u64_table %s" % H(b"".join(v.to_bytes(8, "little") for v in vals))], [bytes(e2).hex()], None))
    ck.run(cases)
    # every table cell is one evaluated case
    ck.stats.states = 65536 + 256 + len(vals) ** 2
    ck.stats.extra["table_cells_checked"] = 65536 + 256 + len(vals) ** 2
    return ck.stats


def arr8_exp(a, c):
    ia, ic = int.from_bytes(a, "big"), int.from_bytes(c, "big")
    z = all(x == 0 for x in a)
    return b(z) + b(not z) + b(a == c) + b(a != c) + b(ia < ic) + b(ia >= ic)


def shard_arrays(part, tier):
    ck = core.Checker(PROPERTY_ID)
    cases = []
    for n in range(0, 41):
        if n % 3 != part:
            continue
        bases = [bytes(n), b"\xff" * n, pat(5, 0, n), pat(2, 1, n), pat(3, 0, n)]
        for base in bases:
            cases.append((["ct_arr8 %s %s" % (H(base), H(base)), "ct_slice8 %s %s" % (H(base), H(base))], [arr8_exp(base, base), "TF"], None))
            for pos in range(n):
                for delta in ("+", "-", "x"):
                    m = bytearray(base)
                    if delta == "+":
                        m[pos] = (m[pos] + 1) & 0xff
                    elif delta == "-":
                        m[pos] = (m[pos] - 1) & 0xff
                    else:
                        m[pos] ^= 0x80
                    m = bytes(m)
                    cases.append((["ct_arr8 %s %s" % (H(base), H(m)), "ct_arr8 %s %s" % (H(m), H(base)), "ct_slice8 %s %s" % (H(base), H(m))],
                                  [arr8_exp(base, m), arr8_exp(m, base), b(base == m) + b(base != m)], None))
            if n in (2, 3, 8, 9, 16, 17, 32, 33, 40):
                for i in range(n):
                    for j in range(i + 1, n):
                        for kind in ("x", "a"):
                            m = bytearray(base)
                            if kind == "x":
                                m[i] ^= 0x21
                                m[j] ^= 0x21
                            else:
                                m[i] = (m[i] + 1) & 0xff
                                m[j] = (m[j] - 1) & 0xff
                            m = bytes(m)
                            cases.append((["ct_arr8 %s %s" % (H(base), H(m)), "ct_slice8 %s %s" % (H(m), H(base))],
                                          [arr8_exp(base, m), b(base == m) + b(base != m)], None))
        # unequal slice lengths: loud refusal
        # unequal slice lengths: a loud refusal (what the crate does) or the plain answer "not equal" - never "equal"
        cases.append((["ct_slice8 %s %s" % (H(bytes(n)), H(bytes(n + 1)))], [("PANIC", "FT")], None))
    # u64 arrays / slices, N = 0..8
    for n in range(0, 9):
        if n % 3 != part:
            continue
        for base in (bytes(8 * n), b"\xff" * (8 * n), pat(6, 0, 8 * n)):
            z = all(x == 0 for x in base)
            cases.append((["ct_arr64 %s %s" % (H(base), H(base)), "ct_slice64 %s %s" % (H(base), H(base))], [b(z) + b(not z) + "TF"] * 2, None))
            for pos in range(8 * n):
                for bit in (0, 7):
                    m = bytearray(base)
                    m[pos] ^= 1 << bit
                    m = bytes(m)
                    zm = all(x == 0 for x in m)
                    cases.append((["ct_arr64 %s %s" % (H(m), H(base)), "ct_slice64 %s %s" % (H(m), H(base))], [b(zm) + b(not zm) + "FT"] * 2, None))
            # the same xor mask in two (or four) different words would cancel in a folding / xor-accumulating comparison
            for i in range(n):
                for j in range(i + 1, n):
                    for mask in (1, 0x8000000000000000, 0xffffffffffffffff, 0x0101010101010101):
                        m = bytearray(base)
                        for w in (i, j):
                            v = int.from_bytes(m[8 * w:8 * w + 8], "little") ^ mask
                            m[8 * w:8 * w + 8] = v.to_bytes(8, "little")
                        m = bytes(m)
                        zm = all(x == 0 for x in m)
                        cases.append((["ct_arr64 %s %s" % (H(m), H(base)), "ct_slice64 %s %s" % (H(base), H(m))],
                                      [b(zm) + b(not zm) + "FT", b(z) + b(not z) + "FT"], None))
        cases.append((["ct_slice64 %s %s" % (H(bytes(8 * n)), H(bytes(8 * n + 8)))], [("PANIC", "TFFT")], None))
    ck.run(cases)
    ck.stats.states = len(cases)
    return ck.stats


def shard_misc(_, tier):
    ck = core.Checker(PROPERTY_ID)
    cases = []
    exp = ""
    for x in (False, True):
        for y in (False, True):
            exp += b(x and y) + b(x or y) + b(x != y) + b(not x) + b(x) + b(not x) + b(x) + "TTTT" + "."
    cases.append((["ct_choice"], [exp], None))
    for v in (b"", b"\x00", pat(5, 0, 33)):
        cases.append((["ct_option 1 %s" % H(v)], ["S." + obs_of(v)], None))
        cases.append((["ct_option 0 %s" % H(v)], ["N"], None))
    for n in (1, 4, 5, 10):
        pats = [bytes(8 * n), b"\xff" * (8 * n), pat(5, 0, 8 * n), pat(6, 3, 8 * n), pat(4, 0, 8 * n), bytes([1] + [0] * (8 * n - 1))]
        for a in pats:
            for c in pats:
                for ch in (0, 1):
                    cases.append((["ct_swapset64 swap %d %s %s" % (ch, H(a), H(c))], ["%s.%s" % ((obs_of(c), obs_of(a)) if ch else (obs_of(a), obs_of(c)))], None))
                    cases.append((["ct_swapset64 set %d %s %s" % (ch, H(a), H(c))], ["%s.%s" % ((obs_of(c), obs_of(c)) if ch else (obs_of(a), obs_of(c)))], None))
        pats = [bytes(4 * n), b"\xff" * (4 * n), pat(5, 0, 4 * n), pat(6, 3, 4 * n), pat(4, 0, 4 * n), bytes([0, 0, 0, 0x80] * n)]
        for a in pats:
            for c in pats:
                for ch in (0, 1):
                    cases.append((["ct_swapset32 swap %d %s %s" % (ch, H(a), H(c))], ["%s.%s" % ((obs_of(c), obs_of(a)) if ch else (obs_of(a), obs_of(c)))], None))
                    cases.append((["ct_swapset32 set %d %s %s" % (ch, H(a), H(c))], ["%s.%s" % ((obs_of(c), obs_of(c)) if ch else (obs_of(a), obs_of(c)))], None))
    # the same truth value derived in every public way (negation, comparisons, combinations): the views and the masked helpers must
    # not depend on how the choice was produced
    for ch in (0, 1):
        for mode in range(17):
            cases.append((["ct_choice_views %d:%d" % (ch, mode)], [b(ch) + b(not ch) + b(ch) + b(ch)], None))
            for n in (1, 5, 10):
                a, c = pat(5, 0, 8 * n), pat(6, 3, 8 * n)
                cases.append((["ct_swapset64 swap %d:%d %s %s" % (ch, mode, H(a), H(c))], ["%s.%s" % ((obs_of(c), obs_of(a)) if ch else (obs_of(a), obs_of(c)))], None))
                cases.append((["ct_swapset64 set %d:%d %s %s" % (ch, mode, H(a), H(c))], ["%s.%s" % ((obs_of(c), obs_of(c)) if ch else (obs_of(a), obs_of(c)))], None))
                a, c = pat(5, 0, 4 * n), bytes([0, 0, 0, 0x80] * n)
                cases.append((["ct_swapset32 swap %d:%d %s %s" % (ch, mode, H(a), H(c))], ["%s.%s" % ((obs_of(c), obs_of(a)) if ch else (obs_of(a), obs_of(c)))], None))
                cases.append((["ct_swapset32 set %d:%d %s %s" % (ch, mode, H(a), H(c))], ["%s.%s" % ((obs_of(c), obs_of(c)) if ch else (obs_of(a), obs_of(c)))], None))
    base = pat(5, 0, 16)
    cases.append((["tag_eq %s %s" % (H(base), H(base))], ["TTTF"], None))
    for bit in range(128):
        m = bytearray(base)
        m[bit // 8] ^= 1 << (bit % 8)
        cases.append((["tag_eq %s %s" % (H(base), H(m))], ["FFFT"], None))
    # differences in two positions that would cancel under folding / accumulation
    for i in range(128):
        for j in range(i + 1, 128):
            m = bytearray(base)
            m[i // 8] ^= 1 << (i % 8)
            m[j // 8] ^= 1 << (j % 8)
            cases.append((["tag_eq %s %s" % (H(base), H(m))], ["FFFT"], None))
    for i in range(16):
        for j in range(i + 1, 16):
            for delta in (1, 0x80, 0xff):
                m = bytearray(base)
                m[i] ^= delta
                m[j] ^= delta
                cases.append((["tag_eq %s %s" % (H(base), H(m))], ["FFFT"], None))
            m = bytearray(base)
            m[i] = (m[i] + 1) & 0xff
            m[j] = (m[j] - 1) & 0xff
            cases.append((["tag_eq %s %s" % (H(base), H(m))], ["FFFT"], None))
    ck.run(cases)
    ck.stats.states = len(cases)
    return ck.stats


def shard_macres(_, tier):
    ck = core.Checker(PROPERTY_ID)
    cases = []
    for n in range(0, 41):
        for base in (bytes(n), pat(5, 0, n), b"\xff" * n):
            cases.append((["macres_eq %s %s" % (H(base), H(base))], ["TTF"], None))
            for pos in range(n):
                for x in (1, 0x80):
                    m = bytearray(base)
                    m[pos] ^= x
                    cases.append((["macres_eq %s %s" % (H(base), H(m))], ["FFT"], None))
            # two differing positions with equal xor delta / opposite additive delta (would cancel under folding or summing)
            if n in (2, 3, 8, 16, 17, 20, 32, 40):
                for i in range(n):
                    for j in range(i + 1, n):
                        m = bytearray(base)
                        m[i] ^= 0x21
                        m[j] ^= 0x21
                        cases.append((["macres_eq %s %s" % (H(base), H(m))], ["FFT"], None))
                        m = bytearray(base)
                        m[i] = (m[i] + 1) & 0xff
                        m[j] = (m[j] - 1) & 0xff
                        cases.append((["macres_eq %s %s" % (H(base), H(m))], ["FFT"], None))
            # unequal lengths: prefix / extension with zero and with a copied byte
            cases.append((["macres_eq %s %s" % (H(base), H(base + b"\x00"))], ["FFT"], None))
            if n:
                cases.append((["macres_eq %s %s" % (H(base), H(base[:-1]))], ["FFT"], None))
                cases.append((["macres_eq %s %s" % (H(base), H(base + base[-1:]))], ["FFT"], None))
    # unequal lengths whose difference is a multiple of 2^8 / 2^16 (a length compared in a narrower type), the shorter one a prefix of
    # the longer, in both orders; and long equal / single-difference codes
    for n in (0, 1, 16, 32, 64):
        for extra in (256, 512, 65536, 65536 + 256):
            a, b_ = pat(5, 0, n), pat(5, 0, n + extra)
            cases.append((["macres_eq %s %s" % (H(a) if n else "h:", P(5, 0, n + extra))], ["FFT"], None))
            cases.append((["macres_eq %s %s" % (P(5, 0, n + extra), H(a) if n else "h:")], ["FFT"], None))
            cases.append((["macres_eq %s %s" % (H(bytes(n)) if n else "h:", P(0, 0, n + extra))], ["FFT"], None))
    for n in (255, 256, 257, 65536):
        cases.append((["macres_eq %s %s" % (P(5, 0, n), P(5, 0, n))], ["TTF"], None))
        m = bytearray(pat(5, 0, n))
        m[n - 1] ^= 1
        cases.append((["macres_eq %s %s" % (P(5, 0, n), H(bytes(m)))], ["FFT"], None))
    ck.run(cases)
    ck.stats.states = len(cases)
    return ck.stats
