/* pcstep <victim> <args...>: single-steps the victim under ptrace and prints, one per line, the instruction addresses
 * (as offsets from the begin marker's nop) executed between the two markers. The markers are recognised by the magic
 * values the victim loads into rax/rdi immediately before a nop. ASLR is disabled for the child so runs are comparable. */
#define _GNU_SOURCE
#include <stdio.h>
#include <stdlib.h>
#include <string.h>
#include <unistd.h>
#include <sys/ptrace.h>
#include <sys/wait.h>
#include <sys/user.h>
#include <sys/personality.h>
#include <fcntl.h>

#define MAGIC_RAX 0x5ca1ab1e0000c0deULL
#define MAGIC_BEGIN 0xfeedface00000001ULL
#define MAGIC_END 0xfeedface00000002ULL

int main(int argc, char **argv) {
    if (argc < 2) { fprintf(stderr, "usage: pcstep victim args...\n"); return 2; }
    pid_t pid = fork();
    if (pid == 0) {
        personality(ADDR_NO_RANDOMIZE);
        int devnull = open("/dev/null", O_WRONLY);
        dup2(devnull, 1);
        ptrace(PTRACE_TRACEME, 0, 0, 0);
        execv(argv[1], argv + 1);
        _exit(127);
    }
    int status;
    waitpid(pid, &status, 0);
    if (!WIFSTOPPED(status)) { fprintf(stderr, "child did not stop\n"); return 2; }
    int state = 0;
    unsigned long long base = 0, last = ~0ULL;
    unsigned long n = 0;
    for (;;) {
        if (ptrace(PTRACE_SINGLESTEP, pid, 0, 0) != 0) break;
        if (waitpid(pid, &status, 0) < 0) break;
        if (WIFEXITED(status) || WIFSIGNALED(status)) break;
        struct user_regs_struct r;
        if (ptrace(PTRACE_GETREGS, pid, 0, &r) != 0) break;
        if (state == 0) {
            if (r.rax == MAGIC_RAX && r.rdi == MAGIC_BEGIN) {
                /* rip is at (or just before) the begin marker's nop: the marker function's entry is the instruction
                 * that loaded the magic; lackey reports the function entry, so anchor at the function start instead:
                 * the caller prints symbol-relative addresses, see pcstep.py */
                state = 1; base = r.rip; last = ~0ULL;
                printf("BEGIN %llx\n", (unsigned long long)r.rip);
            }
            continue;
        }
        if (state == 1) {
            if (r.rax == MAGIC_RAX && r.rdi == MAGIC_END) { state = 2; printf("END %llx %lu\n", (unsigned long long)r.rip, n); break; }
            if (r.rip != last) { printf("%llx\n", (unsigned long long)r.rip); last = r.rip; n++; }
        }
    }
    kill(pid, SIGKILL);
    waitpid(pid, &status, 0);
    return state == 2 ? 0 : 3;
}
