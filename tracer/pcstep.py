"""Second monitor for C19: ptrace single-stepping (tracer/pcstep.c). Returns the instruction-offset sequence between the
markers in the same normal form as lackey.trace(keep=True): offsets from the begin marker's entry, repeated addresses collapsed,
starting with the begin marker's own instructions and ending before the end marker's entry."""
import os
import subprocess
import sys

sys.path.insert(0, os.path.dirname(os.path.dirname(os.path.abspath(__file__))))
from mc import builds

BIN = os.path.join(builds.TARGET, "pcstep", "pcstep")
SRC = os.path.join(builds.VERIF, "tracer", "pcstep.c")


def ensure_built():
    if not os.path.exists(BIN) or os.path.getmtime(BIN) < os.path.getmtime(SRC):
        os.makedirs(os.path.dirname(BIN), exist_ok=True)
        subprocess.run(["gcc", "-O2", "-o", BIN, SRC], check=True)


def marker_layout():
    """offsets, inside a marker function, of the instructions before and including its nop (from the disassembly)"""
    victim = builds.binary_path("ctvictim")
    out = subprocess.run(["objdump", "-d", "--no-show-raw-insn", victim], capture_output=True, text=True).stdout
    offs = []
    on = False
    start = None
    for line in out.splitlines():
        if line.endswith("<ct_marker_begin>:"):
            on = True
            start = int(line.split()[0], 16)
            continue
        if on:
            parts = line.split(":")
            if len(parts) < 2 or not parts[0].strip():
                break
            a = int(parts[0].strip(), 16)
            offs.append(a - start)
            if "nop" in parts[1]:
                break
    return offs          # e.g. [0, 1, 0xb, 0x15]


def trace(op, secret_hex, public_hex=""):
    ensure_built()
    victim = builds.binary_path("ctvictim")
    cmd = [BIN, victim, op, secret_hex] + ([public_hex] if public_hex else [])
    p = subprocess.run(cmd, capture_output=True, text=True)
    if p.returncode != 0:
        raise RuntimeError("pcstep failed rc=%d %s" % (p.returncode, p.stderr[-300:]))
    lines = p.stdout.split()
    lay = marker_layout()
    nop_off = lay[-1]
    i = lines.index("BEGIN")
    begin_entry = int(lines[i + 1], 16) - nop_off
    j = lines.index("END")
    body = [int(x, 16) - begin_entry for x in lines[i + 2:j]]
    end_entry = int(lines[j + 1], 16) - nop_off - begin_entry
    tail = [end_entry + o for o in lay[:-1]]
    if body[-len(tail):] != tail:
        raise RuntimeError("unexpected end-marker tail %r vs %r" % (body[-len(tail):], tail))
    body = body[:-len(tail)]
    # lackey's sequence starts right after the begin marker's entry instruction
    return lay[1:] + body
