"""Instruction-address traces of the victim between its two markers, via `valgrind --tool=lackey --trace-mem=yes`.
Returns (n_instructions, digest of the instruction-offset sequence, digest of the data-access sequence, output line)."""
import hashlib
import os
import subprocess
import sys

sys.path.insert(0, os.path.dirname(os.path.dirname(os.path.abspath(__file__))))
from mc import builds


_MARK = {}


def markers(build="ctvictim"):
    """absolute marker addresses under valgrind (its loader places the PIE deterministically); calibrated once per process
    with --tool=none and re-checked against what each traced run prints"""
    if build not in _MARK:
        victim = builds.binary_path(build)
        p = subprocess.run(["valgrind", "-q", "--tool=none", victim, "noop", "00"], capture_output=True)
        first = p.stdout.decode().split()
        if len(first) < 3 or first[0] != "MARKERS":
            raise RuntimeError("calibration run failed: %r %r" % (p.stdout[:200], p.stderr[-300:]))
        _MARK[build] = (int(first[1], 16), int(first[2], 16))
    return _MARK[build]


def trace(op, secret_hex, public_hex="", keep=False, build="ctvictim"):
    victim = builds.binary_path(build)
    begin, end = markers(build)
    cmd = ["valgrind", "--tool=lackey", "--trace-mem=yes", "--log-fd=2", victim, op, secret_hex]
    if public_hex:
        cmd.append(public_hex)
    import tempfile
    outf = tempfile.TemporaryFile()
    p = subprocess.Popen(cmd, stdout=outf, stderr=subprocess.PIPE, bufsize=1 << 20)
    b_tag = b"I  %08x," % begin
    e_tag = b"I  %08x," % end
    hi = hashlib.blake2b(digest_size=16)
    hd = hashlib.blake2b(digest_size=16)
    n = 0
    state = 0
    seq = [] if keep else None
    last = None
    for line in p.stderr:
        if state == 0:
            if line.startswith(b_tag):
                state = 1
            continue
        if state == 1:
            c = line[0:1]
            if c == b"I":
                if line.startswith(e_tag):
                    state = 2
                    continue
                a = int(line[3:line.index(b",")], 16) - begin
                if a == last:
                    continue        # collapse repeated address (rep-prefixed instructions)
                last = a
                hi.update(a.to_bytes(8, "little", signed=True))
                n += 1
                if keep:
                    seq.append(a)
            elif c == b" ":
                hd.update(line.strip())
        # state 2: drain
    p.wait()
    outf.seek(0)
    out = outf.read().decode().strip().splitlines()
    outf.close()
    if not out or out[0].split() != ["MARKERS", "%x" % begin, "%x" % end]:
        raise RuntimeError("marker addresses moved between calibration and trace: %r" % out[:1])
    out = out[-1]
    if state != 2:
        raise RuntimeError("markers not seen in the trace (state %d) for %s" % (state, op))
    return n, hi.hexdigest(), hd.hexdigest(), out, seq


if __name__ == "__main__":
    import time
    t = time.time()
    r = trace(*sys.argv[1:])
    print(r[:4], time.time() - t)
