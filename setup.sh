#!/bin/sh
# Builds every executor configuration from /repo's working tree (offline) and validates the reference models.
set -e
cd "$(dirname "$0")"
export CARGO_NET_OFFLINE=true
python3 - <<'PY'
import sys
sys.path.insert(0, '.')
from mc import builds
res = builds.build_all(list(builds.CONFIGS))
bad = [n for n, (ok, _) in res.items() if not ok]
for n in bad:
    sys.stderr.write("setup: configuration %s did not build (its check will report this)\n" % n)
    sys.stderr.write(res[n][1][-1500:] + "\n")
if "rel" in bad:
    sys.exit(1)
from tracer import pcstep
pcstep.ensure_built()
from models import selfcheck
selfcheck.run_all()
PY
# machinery self-test: crashes and hangs of the executor are attributed to the right program
VERIF_HANG_S=3 python3 tools/selftest_execpool.py
echo "setup ok"
