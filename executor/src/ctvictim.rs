fn main() {}
