//! cx-ctvictim <op> <secret-hex> [<public-hex>]
//! Runs one operation on black-boxed inputs between two markers. Built WITHOUT the verification cfg: this is the code users ship.
//! The markers are tiny never-inlined functions whose addresses are printed first (for the lackey backend) and which load
//! magic values into rax/rdi before a nop (for the ptrace single-step backend).

use std::hint::black_box;

#[inline(never)]
#[no_mangle]
pub extern "C" fn ct_marker_begin() {
    unsafe {
        core::arch::asm!("nop", in("rax") 0x5ca1ab1e0000c0deu64, in("rdi") 0xfeedface00000001u64);
    }
}

#[inline(never)]
#[no_mangle]
pub extern "C" fn ct_marker_end() {
    unsafe {
        core::arch::asm!("nop", "nop", in("rax") 0x5ca1ab1e0000c0deu64, in("rdi") 0xfeedface00000002u64);
    }
}

fn unhex(s: &str) -> Vec<u8> {
    let b = s.as_bytes();
    (0..b.len() / 2)
        .map(|i| u8::from_str_radix(std::str::from_utf8(&b[2 * i..2 * i + 2]).unwrap(), 16).unwrap())
        .collect()
}

fn arr<const N: usize>(v: &[u8]) -> [u8; N] {
    let mut a = [0u8; N];
    a.copy_from_slice(&v[..N]);
    a
}

fn hex(b: &[u8]) -> String {
    b.iter().map(|x| format!("{:02x}", x)).collect()
}

fn main() {
    use cryptoxide::mac::Mac;
    let args: Vec<String> = std::env::args().collect();
    let op = args[1].as_str();
    let secret = unhex(&args[2]);
    let public = if args.len() > 3 { unhex(&args[3]) } else { Vec::new() };
    println!("MARKERS {:x} {:x}", ct_marker_begin as usize, ct_marker_end as usize);
    // everything the operation needs is prepared before the first marker
    let out: Vec<u8> = match op {
        "x25519_dh" => {
            let n: [u8; 32] = arr(&secret);
            let p: [u8; 32] = arr(&public);
            ct_marker_begin();
            let r = cryptoxide::curve25519::curve25519(black_box(&n), black_box(&p));
            ct_marker_end();
            r.to_vec()
        }
        "x25519_base" => {
            let n: [u8; 32] = arr(&secret);
            ct_marker_begin();
            let r = cryptoxide::curve25519::curve25519_base(black_box(&n));
            ct_marker_end();
            r.to_vec()
        }
        "ed_keypair" => {
            let s: [u8; 32] = arr(&secret);
            ct_marker_begin();
            let (kp, _pk) = cryptoxide::ed25519::keypair(black_box(&s));
            ct_marker_end();
            kp.to_vec()
        }
        "ed_sign" => {
            let s: [u8; 32] = arr(&secret);
            let (kp, _pk) = cryptoxide::ed25519::keypair(&s);
            ct_marker_begin();
            let sig = cryptoxide::ed25519::signature(black_box(&public), black_box(&kp));
            ct_marker_end();
            sig.to_vec()
        }
        "ed_sign_ext" => {
            let e: [u8; 64] = arr(&secret);
            ct_marker_begin();
            let sig = cryptoxide::ed25519::signature_extended(black_box(&public), black_box(&e));
            ct_marker_end();
            sig.to_vec()
        }
        "poly1305" => {
            let k: [u8; 32] = arr(&secret);
            let mut tag = [0u8; 16];
            ct_marker_begin();
            let mut m = cryptoxide::poly1305::Poly1305::new(black_box(&k));
            m.input(black_box(&public));
            m.raw_result(&mut tag);
            ct_marker_end();
            tag.to_vec()
        }
        // the same MAC fed in pieces of 16, 48 and the rest (call boundaries after 1 and 4 blocks, public)
        "poly1305_split" => {
            let k: [u8; 32] = arr(&secret);
            let mut tag = [0u8; 16];
            let a = core::cmp::min(16, public.len());
            let b = core::cmp::min(64, public.len());
            ct_marker_begin();
            let mut m = cryptoxide::poly1305::Poly1305::new(black_box(&k));
            m.input(black_box(&public[..a]));
            m.input(black_box(&public[a..b]));
            m.input(black_box(&public[b..]));
            m.raw_result(&mut tag);
            ct_marker_end();
            tag.to_vec()
        }
        "hmac_sha256" => {
            let mut tag = [0u8; 32];
            ct_marker_begin();
            let mut m = cryptoxide::hmac::Hmac::new(cryptoxide::sha2::Sha256::new(), black_box(&secret));
            m.input(black_box(&public));
            m.raw_result(&mut tag);
            ct_marker_end();
            tag.to_vec()
        }
        "chacha20" => {
            let nonce = [7u8; 12];
            let mut data = public.clone();
            ct_marker_begin();
            let mut c = cryptoxide::chacha20::ChaCha20::new(black_box(&secret), &nonce);
            c.process_mut(black_box(&mut data));
            ct_marker_end();
            data
        }
        "salsa20" => {
            let nonce = [7u8; 8];
            let mut data = public.clone();
            ct_marker_begin();
            let mut c = cryptoxide::salsa20::Salsa20::new(black_box(&secret), &nonce);
            c.process_mut(black_box(&mut data));
            ct_marker_end();
            data
        }
        "xchacha20" => {
            let nonce = [7u8; 24];
            let k: [u8; 32] = arr(&secret);
            let mut data = public.clone();
            ct_marker_begin();
            let mut c = cryptoxide::chacha20::XChaCha::<20>::new(black_box(&k), &nonce);
            c.process_mut(black_box(&mut data));
            ct_marker_end();
            data
        }
        "chacha20_original" => {
            let nonce = [7u8; 8];
            let mut data = public.clone();
            ct_marker_begin();
            let mut c = cryptoxide::chacha20::ChaChaOriginal::<20>::new(black_box(&secret), &nonce);
            c.process_mut(black_box(&mut data));
            ct_marker_end();
            data
        }
        "xsalsa20" => {
            let nonce = [7u8; 24];
            let k: [u8; 32] = arr(&secret);
            let mut data = public.clone();
            ct_marker_begin();
            let mut c = cryptoxide::salsa20::XSalsa20::new(black_box(&k), &nonce);
            c.process_mut(black_box(&mut data));
            ct_marker_end();
            data
        }
        "hmac_sha512" => {
            let mut tag = [0u8; 64];
            ct_marker_begin();
            let mut m = cryptoxide::hmac::Hmac::new(cryptoxide::sha2::Sha512::new(), black_box(&secret));
            m.input(black_box(&public));
            m.raw_result(&mut tag);
            ct_marker_end();
            tag.to_vec()
        }
        "hmac_sha1" => {
            let mut tag = [0u8; 20];
            ct_marker_begin();
            let mut m = cryptoxide::hmac::Hmac::new(cryptoxide::sha1::Sha1::new(), black_box(&secret));
            m.input(black_box(&public));
            m.raw_result(&mut tag);
            ct_marker_end();
            tag.to_vec()
        }
        "blake2b_mac" => {
            let mut tag = [0u8; 32];
            ct_marker_begin();
            let mut m = cryptoxide::blake2b::Blake2b::new_keyed(32, black_box(&secret));
            m.input(black_box(&public));
            m.raw_result(&mut tag);
            ct_marker_end();
            tag.to_vec()
        }
        "ed_exchange" => {
            let s: [u8; 32] = arr(&secret);
            let p: [u8; 32] = arr(&public);
            ct_marker_begin();
            let r = cryptoxide::ed25519::exchange(black_box(&p), black_box(&s));
            ct_marker_end();
            r.to_vec()
        }
        "aead_encrypt" => {
            let nonce = [7u8; 12];
            let mut out = vec![0u8; public.len()];
            let mut tag = [0u8; 16];
            ct_marker_begin();
            let mut c = cryptoxide::chacha20poly1305::ChaCha20Poly1305::new(black_box(&secret), &nonce, b"header");
            c.encrypt(black_box(&public), &mut out, &mut tag);
            ct_marker_end();
            out.extend_from_slice(&tag);
            out
        }
        "macresult_eq" => {
            let a = cryptoxide::mac::MacResult::new(&secret);
            let b = cryptoxide::mac::MacResult::new(&public);
            ct_marker_begin();
            let r = black_box(&a) == black_box(&b);
            ct_marker_end();
            vec![r as u8]
        }
        "tag_eq" => {
            let a = cryptoxide::chacha20poly1305::Tag(arr(&secret));
            let b = cryptoxide::chacha20poly1305::Tag(arr(&public));
            ct_marker_begin();
            let r = black_box(&a) == black_box(&b);
            ct_marker_end();
            vec![r as u8]
        }
        "aead_decrypt_tagcheck" => {
            // full incremental decryption whose expected tag is the secret: verdict path must not depend on the mismatch position
            let key = [9u8; 32];
            let nonce = [7u8; 12];
            let mut ctx = cryptoxide::chacha20poly1305::Context::<20>::new(&key, &nonce);
            ctx.add_data(b"header");
            let mut dec = ctx.to_decryption();
            let mut buf = public.clone();
            dec.decrypt_mut(&mut buf);
            let tag = cryptoxide::chacha20poly1305::Tag(arr(&secret));
            ct_marker_begin();
            let r = dec.finalize(black_box(&tag));
            ct_marker_end();
            vec![(r == cryptoxide::chacha20poly1305::DecryptionResult::Match) as u8]
        }
        // the wide reduction applied to the secret nonce / hash during signing, on a chosen 64-byte secret
        "sc_reduce" => {
            let w = arr::<64>(&secret);
            ct_marker_begin();
            let r = cryptoxide::curve25519::Scalar::reduce_from_wide_bytes(black_box(&w));
            let o = r.to_bytes();
            ct_marker_end();
            o.to_vec()
        }
        "noop" => Vec::new(),
        // deliberately secret-dependent control flow: used only to show that the tracer detects it
        "selftest_leaky" => {
            ct_marker_begin();
            let mut acc = 0u8;
            for b in black_box(&secret).iter() {
                if *b != 0 {
                    acc = acc.wrapping_add(black_box(3));
                }
            }
            ct_marker_end();
            vec![acc]
        }
        _ => {
            eprintln!("unknown op");
            std::process::exit(2);
        }
    };
    println!("OUT {}", hex(&out));
}
