//! legacy Digest objects, Mac objects (Hmac, Poly1305, keyed Blake2)

use crate::*;
use cryptoxide::digest::Digest;
use cryptoxide::hmac::Hmac;
use cryptoxide::mac::{Mac, MacResult};

pub trait LDigest {
    fn input(&mut self, d: &[u8]);
    fn result(&mut self, out: &mut [u8]);
    fn reset(&mut self);
    fn output_bits(&self) -> usize;
    fn output_bytes(&self) -> usize;
    fn block_size(&self) -> usize;
    fn result_str(&mut self) -> String;
    fn input_str(&mut self, s: &str);
    fn bclone(&self) -> Box<dyn LDigest>;
    fn b2_reset(&mut self) -> Result<(), String> {
        Err("unsupported".into())
    }
    fn b2_reset_key(&mut self, _k: &[u8]) -> Result<(), String> {
        Err("unsupported".into())
    }
}

// all trait calls go through generic functions bounded on the trait, the way Hmac<D> uses a digest
fn g_input<D: Digest>(d: &mut D, x: &[u8]) {
    d.input(x)
}
fn g_result<D: Digest>(d: &mut D, out: &mut [u8]) {
    d.result(out)
}
fn g_reset<D: Digest>(d: &mut D) {
    d.reset()
}

macro_rules! ldigest_common {
    () => {
        fn input(&mut self, d: &[u8]) {
            g_input(self, d)
        }
        fn result(&mut self, out: &mut [u8]) {
            g_result(self, out)
        }
        fn reset(&mut self) {
            g_reset(self)
        }
        fn output_bits(&self) -> usize {
            Digest::output_bits(self)
        }
        fn output_bytes(&self) -> usize {
            Digest::output_bytes(self)
        }
        fn block_size(&self) -> usize {
            Digest::block_size(self)
        }
        fn result_str(&mut self) -> String {
            Digest::result_str(self)
        }
        fn input_str(&mut self, s: &str) {
            Digest::input_str(self, s)
        }
        fn bclone(&self) -> Box<dyn LDigest> {
            Box::new(self.clone())
        }
    };
}

macro_rules! ldigest {
    ($ty:ty) => {
        impl LDigest for $ty {
            ldigest_common!();
        }
    };
}
macro_rules! ldigest_b2 {
    ($ty:ty) => {
        impl LDigest for $ty {
            ldigest_common!();
            fn b2_reset(&mut self) -> Result<(), String> {
                <$ty>::reset(self);
                Ok(())
            }
            fn b2_reset_key(&mut self, k: &[u8]) -> Result<(), String> {
                <$ty>::reset_with_key(self, k);
                Ok(())
            }
        }
    };
}

ldigest!(cryptoxide::sha1::Sha1);
ldigest!(cryptoxide::sha2::Sha224);
ldigest!(cryptoxide::sha2::Sha256);
ldigest!(cryptoxide::sha2::Sha384);
ldigest!(cryptoxide::sha2::Sha512);
ldigest!(cryptoxide::sha2::Sha512Trunc224);
ldigest!(cryptoxide::sha2::Sha512Trunc256);
ldigest!(cryptoxide::sha3::Sha3_224);
ldigest!(cryptoxide::sha3::Sha3_256);
ldigest!(cryptoxide::sha3::Sha3_384);
ldigest!(cryptoxide::sha3::Sha3_512);
ldigest!(cryptoxide::sha3::Keccak224);
ldigest!(cryptoxide::sha3::Keccak256);
ldigest!(cryptoxide::sha3::Keccak384);
ldigest!(cryptoxide::sha3::Keccak512);
ldigest!(cryptoxide::ripemd160::Ripemd160);
ldigest_b2!(cryptoxide::blake2b::Blake2b);
ldigest_b2!(cryptoxide::blake2s::Blake2s);

pub trait LMac {
    fn input(&mut self, d: &[u8]);
    fn result(&mut self) -> MacResult;
    fn raw_result(&mut self, out: &mut [u8]);
    fn reset(&mut self);
    fn output_bytes(&self) -> usize;
    fn bclone(&self) -> Option<Box<dyn LMac>> {
        None
    }
    fn b2_reset(&mut self) -> Result<(), String> {
        Err("unsupported".into())
    }
    fn b2_reset_key(&mut self, _k: &[u8]) -> Result<(), String> {
        Err("unsupported".into())
    }
}

fn gm_input<M: Mac>(m: &mut M, x: &[u8]) {
    m.input(x)
}
fn gm_result<M: Mac>(m: &mut M) -> MacResult {
    m.result()
}
fn gm_raw<M: Mac>(m: &mut M, out: &mut [u8]) {
    m.raw_result(out)
}
fn gm_reset<M: Mac>(m: &mut M) {
    m.reset()
}
fn gm_outbytes<M: Mac>(m: &M) -> usize {
    m.output_bytes()
}

macro_rules! lmac_common {
    () => {
        fn input(&mut self, d: &[u8]) {
            gm_input(self, d)
        }
        fn result(&mut self) -> MacResult {
            gm_result(self)
        }
        fn raw_result(&mut self, out: &mut [u8]) {
            gm_raw(self, out)
        }
        fn reset(&mut self) {
            gm_reset(self)
        }
        fn output_bytes(&self) -> usize {
            gm_outbytes(self)
        }
    };
}

impl<D: Digest> LMac for Hmac<D> {
    lmac_common!();
}
impl LMac for cryptoxide::poly1305::Poly1305 {
    lmac_common!();
    fn bclone(&self) -> Option<Box<dyn LMac>> {
        Some(Box::new(self.clone()))
    }
}
macro_rules! lmac_b2 {
    ($ty:ty) => {
        impl LMac for $ty {
            lmac_common!();
            fn bclone(&self) -> Option<Box<dyn LMac>> {
                Some(Box::new(self.clone()))
            }
            fn b2_reset(&mut self) -> Result<(), String> {
                <$ty>::reset(self);
                Ok(())
            }
            fn b2_reset_key(&mut self, k: &[u8]) -> Result<(), String> {
                <$ty>::reset_with_key(self, k);
                Ok(())
            }
        }
    };
}
lmac_b2!(cryptoxide::blake2b::Blake2b);
lmac_b2!(cryptoxide::blake2s::Blake2s);

/// kind [outlen [key]]
pub fn new_digest(kind: &str, args: &[&str]) -> Result<Box<dyn LDigest>, String> {
    Ok(match kind {
        "sha1" => Box::new(cryptoxide::sha1::Sha1::new()),
        "sha224" => Box::new(cryptoxide::sha2::Sha224::new()),
        "sha256" => Box::new(cryptoxide::sha2::Sha256::new()),
        "sha384" => Box::new(cryptoxide::sha2::Sha384::new()),
        "sha512" => Box::new(cryptoxide::sha2::Sha512::new()),
        "sha512_224" => Box::new(cryptoxide::sha2::Sha512Trunc224::new()),
        "sha512_256" => Box::new(cryptoxide::sha2::Sha512Trunc256::new()),
        "sha3_224" => Box::new(cryptoxide::sha3::Sha3_224::new()),
        "sha3_256" => Box::new(cryptoxide::sha3::Sha3_256::new()),
        "sha3_384" => Box::new(cryptoxide::sha3::Sha3_384::new()),
        "sha3_512" => Box::new(cryptoxide::sha3::Sha3_512::new()),
        "keccak224" => Box::new(cryptoxide::sha3::Keccak224::new()),
        "keccak256" => Box::new(cryptoxide::sha3::Keccak256::new()),
        "keccak384" => Box::new(cryptoxide::sha3::Keccak384::new()),
        "keccak512" => Box::new(cryptoxide::sha3::Keccak512::new()),
        "ripemd160" => Box::new(cryptoxide::ripemd160::Ripemd160::new()),
        "blake2b" => {
            need(args, 1)?;
            let outlen = arg_usize(args[0])?;
            if args.len() > 1 {
                let k = arg_bytes(args[1])?;
                Box::new(cryptoxide::blake2b::Blake2b::new_keyed(outlen, &k))
            } else {
                Box::new(cryptoxide::blake2b::Blake2b::new(outlen))
            }
        }
        "blake2s" => {
            need(args, 1)?;
            let outlen = arg_usize(args[0])?;
            if args.len() > 1 {
                let k = arg_bytes(args[1])?;
                Box::new(cryptoxide::blake2s::Blake2s::new_keyed(outlen, &k))
            } else {
                Box::new(cryptoxide::blake2s::Blake2s::new(outlen))
            }
        }
        _ => return Err(format!("unknown-digest-kind:{}", kind)),
    })
}

/// run `f` with a concrete legacy digest value of the given kind
#[macro_export]
macro_rules! with_digest_kind {
    ($kind:expr, $outlen:expr, $d:ident => $body:expr) => {
        match $kind {
            "sha1" => { let $d = cryptoxide::sha1::Sha1::new(); $body }
            "sha224" => { let $d = cryptoxide::sha2::Sha224::new(); $body }
            "sha256" => { let $d = cryptoxide::sha2::Sha256::new(); $body }
            "sha384" => { let $d = cryptoxide::sha2::Sha384::new(); $body }
            "sha512" => { let $d = cryptoxide::sha2::Sha512::new(); $body }
            "sha512_224" => { let $d = cryptoxide::sha2::Sha512Trunc224::new(); $body }
            "sha512_256" => { let $d = cryptoxide::sha2::Sha512Trunc256::new(); $body }
            "sha3_224" => { let $d = cryptoxide::sha3::Sha3_224::new(); $body }
            "sha3_256" => { let $d = cryptoxide::sha3::Sha3_256::new(); $body }
            "sha3_384" => { let $d = cryptoxide::sha3::Sha3_384::new(); $body }
            "sha3_512" => { let $d = cryptoxide::sha3::Sha3_512::new(); $body }
            "keccak224" => { let $d = cryptoxide::sha3::Keccak224::new(); $body }
            "keccak256" => { let $d = cryptoxide::sha3::Keccak256::new(); $body }
            "keccak384" => { let $d = cryptoxide::sha3::Keccak384::new(); $body }
            "keccak512" => { let $d = cryptoxide::sha3::Keccak512::new(); $body }
            "ripemd160" => { let $d = cryptoxide::ripemd160::Ripemd160::new(); $body }
            "blake2b" => { let $d = cryptoxide::blake2b::Blake2b::new($outlen); $body }
            "blake2s" => { let $d = cryptoxide::blake2s::Blake2s::new($outlen); $body }
            k => return Err(format!("unknown-digest-kind:{}", k)),
        }
    };
}

/// digest kinds are written `name` or `name:<outlen>` (BLAKE2)
pub fn split_kind(k: &str) -> (&str, usize) {
    match k.find(':') {
        Some(i) => (&k[..i], k[i + 1..].parse().unwrap_or(0)),
        None => (k, 0),
    }
}

/// Hmac built over a digest object that has a past and was brought back to the fresh state by a public reset:
///   mode "reset":   input(pre) ; Digest::reset()
///   mode "result":  input(pre) ; result() ; Digest::reset()
///   mode "b2key":   (BLAKE2 only) new_keyed(outlen, pre) ; inherent reset() (back to the unkeyed hash)
///   mode "b2rekey": (BLAKE2 only) new(outlen) ; reset_with_key(pre) ; input(pre) ; inherent reset()
fn new_hmac_used(kind: &str, key: &[u8], pre: &[u8], mode: &str) -> Result<Box<dyn LMac>, String> {
    let (k, outlen) = split_kind(kind);
    match (k, mode) {
        ("blake2b", "b2key") => {
            let mut d = cryptoxide::blake2b::Blake2b::new_keyed(outlen, pre);
            d.reset();
            return Ok(Box::new(Hmac::new(d, key)));
        }
        ("blake2s", "b2key") => {
            let mut d = cryptoxide::blake2s::Blake2s::new_keyed(outlen, pre);
            d.reset();
            return Ok(Box::new(Hmac::new(d, key)));
        }
        ("blake2b", "b2rekey") => {
            let mut d = cryptoxide::blake2b::Blake2b::new(outlen);
            d.reset_with_key(pre);
            g_input(&mut d, pre);
            d.reset();
            return Ok(Box::new(Hmac::new(d, key)));
        }
        ("blake2s", "b2rekey") => {
            let mut d = cryptoxide::blake2s::Blake2s::new(outlen);
            d.reset_with_key(pre);
            g_input(&mut d, pre);
            d.reset();
            return Ok(Box::new(Hmac::new(d, key)));
        }
        (_, "b2key") | (_, "b2rekey") => return Err("bad-mode-for-kind".into()),
        _ => {}
    }
    Ok(with_digest_kind!(k, outlen, d => {
        let mut d = d;
        g_input(&mut d, pre);
        if mode == "result" {
            let mut tmp = vec![0u8; Digest::output_bytes(&d)];
            g_result(&mut d, &mut tmp);
        }
        g_reset(&mut d);
        Box::new(Hmac::new(d, key)) as Box<dyn LMac>
    }))
}

fn new_hmac(kind: &str, key: &[u8]) -> Result<Box<dyn LMac>, String> {
    let (k, outlen) = split_kind(kind);
    Ok(with_digest_kind!(k, outlen, d => Box::new(Hmac::new(d, key)) as Box<dyn LMac>))
}

fn with_digest<F: FnOnce(&mut Box<dyn LDigest>) -> R>(m: &mut Machine, slot: usize, f: F) -> R {
    match m.slots.get_mut(slot) {
        Some(Some(Obj::Digest(h))) => f(h),
        Some(None) | None => Ok("ABSENT".into()),
        _ => Err("not-a-digest".into()),
    }
}

fn with_mac<F: FnOnce(&mut Box<dyn LMac>) -> R>(m: &mut Machine, slot: usize, f: F) -> R {
    match m.slots.get_mut(slot) {
        Some(Some(Obj::Mac(h))) => f(h),
        Some(None) | None => Ok("ABSENT".into()),
        _ => Err("not-a-mac".into()),
    }
}

pub fn dispatch(m: &mut Machine, name: &str, args: &[&str]) -> Option<R> {
    Some(match name {
        // dnew <slot> <kind> [outlen [key]]
        "dnew" => (|| {
            need(args, 2)?;
            let s = arg_slot(args[0])?;
            let d = new_digest(args[1], &args[2..])?;
            m.put(s, Obj::Digest(d));
            Ok("-".into())
        })(),
        "dinput" => (|| {
            need(args, 2)?;
            let s = arg_slot(args[0])?;
            let d = arg_bytes(args[1])?;
            with_digest(m, s, |h| {
                h.input(&d);
                Ok("-".into())
            })
        })(),
        "dinput_rep" => (|| {
            need(args, 3)?;
            let s = arg_slot(args[0])?;
            let d = arg_bytes(args[1])?;
            let n = arg_usize(args[2])?;
            with_digest(m, s, |h| {
                for _ in 0..n {
                    h.input(&d);
                }
                Ok("-".into())
            })
        })(),
        // dinput_str <slot> <bytes that are valid UTF-8>: Digest::input_str
        "dinput_str" => (|| {
            need(args, 2)?;
            let s = arg_slot(args[0])?;
            let d = arg_bytes(args[1])?;
            let st = String::from_utf8(d.to_vec()).map_err(|_| "bad-utf8".to_string())?;
            with_digest(m, s, |h| {
                h.input_str(&st);
                Ok("-".into())
            })
        })(),
        // dresult <slot> [buffer length]
        "dresult" => (|| {
            need(args, 1)?;
            let s = arg_slot(args[0])?;
            let len = if args.len() > 1 { Some(arg_usize(args[1])?) } else { None };
            with_digest(m, s, |h| {
                let n = len.unwrap_or_else(|| h.output_bytes());
                let mut out = vec![0xA5u8; n];
                h.result(&mut out);
                Ok(obs_bytes(&out))
            })
        })(),
        "dresult_str" => (|| {
            need(args, 1)?;
            let s = arg_slot(args[0])?;
            with_digest(m, s, |h| Ok(format!("str:{}", h.result_str())))
        })(),
        "dreset" => (|| {
            need(args, 1)?;
            let s = arg_slot(args[0])?;
            with_digest(m, s, |h| {
                h.reset();
                Ok("-".into())
            })
        })(),
        "db2reset" => (|| {
            need(args, 1)?;
            let s = arg_slot(args[0])?;
            with_digest(m, s, |h| {
                h.b2_reset()?;
                Ok("-".into())
            })
        })(),
        "db2reset_key" => (|| {
            need(args, 2)?;
            let s = arg_slot(args[0])?;
            let k = arg_bytes(args[1])?;
            with_digest(m, s, |h| {
                h.b2_reset_key(&k)?;
                Ok("-".into())
            })
        })(),
        "dclone" => (|| {
            need(args, 2)?;
            let s = arg_slot(args[0])?;
            let d = arg_slot(args[1])?;
            let c = match m.slots.get(s) {
                Some(Some(Obj::Digest(h))) => h.bclone(),
                Some(None) | None => return Ok("ABSENT".into()),
                _ => return Err("not-a-digest".into()),
            };
            m.put(d, Obj::Digest(c));
            Ok("-".into())
        })(),
        "dinfo" => (|| {
            need(args, 1)?;
            let s = arg_slot(args[0])?;
            with_digest(m, s, |h| Ok(format!("{}.{}.{}", h.output_bits(), h.output_bytes(), h.block_size())))
        })(),
        // static one-shot helpers of the legacy BLAKE2 wrappers
        "b2b_static" => (|| {
            need(args, 3)?;
            let mut out = vec![0xA5u8; arg_usize(args[0])?];
            let input = arg_bytes(args[1])?;
            let key = arg_bytes(args[2])?;
            cryptoxide::blake2b::Blake2b::blake2b(&mut out, &input, &key);
            Ok(obs_bytes(&out))
        })(),
        "b2s_static" => (|| {
            need(args, 3)?;
            let mut out = vec![0xA5u8; arg_usize(args[0])?];
            let input = arg_bytes(args[1])?;
            let key = arg_bytes(args[2])?;
            cryptoxide::blake2s::Blake2s::blake2s(&mut out, &input, &key);
            Ok(obs_bytes(&out))
        })(),
        // mnew <slot> hmac <digestkind[:outlen]> <key> | poly1305 <key32> | blake2b <outlen> <key> | blake2s <outlen> <key>
        "mnew" => (|| {
            need(args, 3)?;
            let s = arg_slot(args[0])?;
            let mac: Box<dyn LMac> = match args[1] {
                "hmac" => {
                    need(args, 4)?;
                    let k = arg_bytes(args[3])?;
                    new_hmac(args[2], &k)?
                }
                // mnew <slot> hmac_used <digest> <key> <pre bytes> <mode>
                "hmac_used" => {
                    need(args, 6)?;
                    let k = arg_bytes(args[3])?;
                    let pre = arg_bytes(args[4])?;
                    new_hmac_used(args[2], &k, &pre, args[5])?
                }
                "poly1305" => {
                    let k = arg_bytes(args[2])?;
                    let k32: [u8; 32] = arr(&k)?;
                    Box::new(cryptoxide::poly1305::Poly1305::new(&k32))
                }
                "blake2b" => {
                    need(args, 4)?;
                    let outlen = arg_usize(args[2])?;
                    let k = arg_bytes(args[3])?;
                    Box::new(cryptoxide::blake2b::Blake2b::new_keyed(outlen, &k))
                }
                "blake2s" => {
                    need(args, 4)?;
                    let outlen = arg_usize(args[2])?;
                    let k = arg_bytes(args[3])?;
                    Box::new(cryptoxide::blake2s::Blake2s::new_keyed(outlen, &k))
                }
                k => return Err(format!("unknown-mac-kind:{}", k)),
            };
            m.put(s, Obj::Mac(mac));
            Ok("-".into())
        })(),
        "minput" => (|| {
            need(args, 2)?;
            let s = arg_slot(args[0])?;
            let d = arg_bytes(args[1])?;
            with_mac(m, s, |h| {
                h.input(&d);
                Ok("-".into())
            })
        })(),
        // minput_rep <slot> <chunk> <count>
        "minput_rep" => (|| {
            need(args, 3)?;
            let s = arg_slot(args[0])?;
            let d = arg_bytes(args[1])?;
            let n = arg_usize(args[2])?;
            with_mac(m, s, |h| {
                for _ in 0..n {
                    h.input(&d);
                }
                Ok("-".into())
            })
        })(),
        "mresult" => (|| {
            need(args, 1)?;
            let s = arg_slot(args[0])?;
            with_mac(m, s, |h| Ok(obs_bytes(h.result().code())))
        })(),
        // mraw <slot> [buffer length]
        "mraw" => (|| {
            need(args, 1)?;
            let s = arg_slot(args[0])?;
            let len = if args.len() > 1 { Some(arg_usize(args[1])?) } else { None };
            with_mac(m, s, |h| {
                let n = len.unwrap_or_else(|| h.output_bytes());
                let mut out = vec![0xA5u8; n];
                h.raw_result(&mut out);
                Ok(obs_bytes(&out))
            })
        })(),
        "mreset" => (|| {
            need(args, 1)?;
            let s = arg_slot(args[0])?;
            with_mac(m, s, |h| {
                h.reset();
                Ok("-".into())
            })
        })(),
        "mb2reset" => (|| {
            need(args, 1)?;
            let s = arg_slot(args[0])?;
            with_mac(m, s, |h| {
                h.b2_reset()?;
                Ok("-".into())
            })
        })(),
        "mb2reset_key" => (|| {
            need(args, 2)?;
            let s = arg_slot(args[0])?;
            let k = arg_bytes(args[1])?;
            with_mac(m, s, |h| {
                h.b2_reset_key(&k)?;
                Ok("-".into())
            })
        })(),
        "mclone" => (|| {
            need(args, 2)?;
            let s = arg_slot(args[0])?;
            let d = arg_slot(args[1])?;
            let c = match m.slots.get(s) {
                Some(Some(Obj::Mac(h))) => h.bclone().ok_or("not-clone")?,
                Some(None) | None => return Ok("ABSENT".into()),
                _ => return Err("not-a-mac".into()),
            };
            m.put(d, Obj::Mac(c));
            Ok("-".into())
        })(),
        "moutbytes" => (|| {
            need(args, 1)?;
            let s = arg_slot(args[0])?;
            with_mac(m, s, |h| Ok(format!("{}", h.output_bytes())))
        })(),
        // mresult_eq <slot> <bytes>: result() == MacResult::new(bytes)
        "mresult_eq" => (|| {
            need(args, 2)?;
            let s = arg_slot(args[0])?;
            let d = arg_bytes(args[1])?;
            with_mac(m, s, |h| Ok(obs_bool(h.result() == MacResult::new(&d))))
        })(),
        "macres_eq" => (|| {
            need(args, 2)?;
            let a = arg_bytes(args[0])?;
            let b = arg_bytes(args[1])?;
            let r1 = MacResult::new(&a) == MacResult::new_from_owned(b.to_vec());
            let r2 = MacResult::new_from_owned(b.to_vec()) == MacResult::new(&a);
            let r3 = MacResult::new(&a) != MacResult::new(&b);
            Ok(format!("{}{}{}", obs_bool(r1), obs_bool(r2), obs_bool(r3)))
        })(),
        _ => return None,
    })
}
