//! constant_time helpers

use crate::*;
use cryptoxide::constant_time::{verif, Choice, CtEqual, CtGreater, CtLesser, CtOption, CtZero};

fn choice(b: bool) -> Choice {
    (b as u64).ct_nonzero()
}

/// the same truth value obtained through every public way of producing a `Choice` (the masked helpers must not depend on how a
/// choice was derived: negations, comparisons, combinations)
fn choice_mode(b: bool, mode: u32) -> Result<Choice, String> {
    let t = 1u64.ct_nonzero();
    let f = 0u64.ct_nonzero();
    let x: u64 = 0x1234_5678_9abc_def0;
    Ok(match mode {
        0 => choice(b),
        1 => ((!b) as u64).ct_zero(),
        2 => choice(!b).negate(),
        3 => choice(b).negate().negate(),
        4 => x.ct_eq(if b { x } else { x ^ (1 << 63) }),
        5 => x.ct_ne(if b { x ^ 1 } else { x }),
        6 => u64::ct_lt(5, if b { 6 } else { 5 }),
        7 => u64::ct_le(5, if b { 5 } else { 4 }),
        8 => u64::ct_ge(5, if b { 5 } else { 6 }),
        9 => u64::ct_gt(5, if b { 4 } else { 5 }),
        10 => choice(b) & t,
        11 => choice(b) | f,
        12 => choice(!b) ^ t,
        13 => (&[1u8, 2, 3]).ct_ne(if b { &[1u8, 2, 4] } else { &[1u8, 2, 3] }),
        14 => (&[9u64, 7][..]).ct_eq(if b { &[9u64, 7][..] } else { &[9u64, 8][..] }),
        15 => <&[u8; 2]>::ct_ge(&[0u8, 5], if b { &[0u8, 5] } else { &[0u8, 6] }),
        16 => (choice(!b) | f).negate() & (t ^ f),
        _ => return Err("bad-choice-mode".into()),
    })
}

fn parse_choice(a: &str) -> Result<Choice, String> {
    match a.find(':') {
        None => Ok(choice(arg_u64(a)? != 0)),
        Some(i) => choice_mode(arg_u64(&a[..i])? != 0, arg_u64(&a[i + 1..])? as u32),
    }
}

fn bits(v: &[bool]) -> String {
    v.iter().map(|b| if *b { 'T' } else { 'F' }).collect()
}

fn arr8_ops<const N: usize>(a: &[u8], b: &[u8]) -> Result<String, String> {
    // the arrays are used where the argument parser placed them (an `@k:` prefix chooses the address offset): no copy
    let a: &[u8; N] = <&[u8; N]>::try_from(a).map_err(|_| format!("need-{}-bytes", N))?;
    let b: &[u8; N] = <&[u8; N]>::try_from(b).map_err(|_| format!("need-{}-bytes", N))?;
    Ok(bits(&[
        a.ct_zero().is_true(),
        a.ct_nonzero().is_true(),
        a.ct_eq(b).is_true(),
        a.ct_ne(b).is_true(),
        <&[u8; N]>::ct_lt(a, b).is_true(),
        <&[u8; N]>::ct_ge(a, b).is_true(),
    ]))
}

fn to_u64s(a: &[u8]) -> Result<Vec<u64>, String> {
    if a.len() % 8 != 0 {
        return Err("need-multiple-of-8".into());
    }
    Ok(a.chunks(8)
        .map(|c| {
            let mut x = [0u8; 8];
            x.copy_from_slice(c);
            u64::from_le_bytes(x)
        })
        .collect())
}
fn to_i32s(a: &[u8]) -> Result<Vec<i32>, String> {
    if a.len() % 4 != 0 {
        return Err("need-multiple-of-4".into());
    }
    Ok(a.chunks(4)
        .map(|c| {
            let mut x = [0u8; 4];
            x.copy_from_slice(c);
            i32::from_le_bytes(x)
        })
        .collect())
}
fn from_u64s(v: &[u64]) -> Vec<u8> {
    v.iter().flat_map(|x| x.to_le_bytes()).collect()
}
fn from_i32s(v: &[i32]) -> Vec<u8> {
    v.iter().flat_map(|x| x.to_le_bytes()).collect()
}

fn arr64_ops<const N: usize>(a: &[u64], b: &[u64]) -> Result<String, String> {
    let a: [u64; N] = <[u64; N]>::try_from(a).map_err(|_| "bad-len")?;
    let b: [u64; N] = <[u64; N]>::try_from(b).map_err(|_| "bad-len")?;
    Ok(bits(&[
        (&a).ct_zero().is_true(),
        (&a).ct_nonzero().is_true(),
        (&a).ct_eq(&b).is_true(),
        (&a).ct_ne(&b).is_true(),
    ]))
}

fn swapset64<const N: usize>(op: &str, c: Choice, a: &[u64], b: &[u64]) -> Result<String, String> {
    let mut a: [u64; N] = <[u64; N]>::try_from(a).map_err(|_| "bad-len")?;
    let mut b: [u64; N] = <[u64; N]>::try_from(b).map_err(|_| "bad-len")?;
    match op {
        "swap" => verif::array64_maybe_swap_with(&mut a, &mut b, c),
        "set" => verif::array64_maybe_set(&mut a, &b, c),
        _ => return Err("bad-op".into()),
    }
    Ok(format!("{}.{}", obs_bytes(&from_u64s(&a)), obs_bytes(&from_u64s(&b))))
}
fn swapset32<const N: usize>(op: &str, c: Choice, a: &[i32], b: &[i32]) -> Result<String, String> {
    let mut a: [i32; N] = <[i32; N]>::try_from(a).map_err(|_| "bad-len")?;
    let mut b: [i32; N] = <[i32; N]>::try_from(b).map_err(|_| "bad-len")?;
    match op {
        "swap" => verif::array32_maybe_swap_with(&mut a, &mut b, c),
        "set" => verif::array32_maybe_set(&mut a, &b, c),
        _ => return Err("bad-op".into()),
    }
    Ok(format!("{}.{}", obs_bytes(&from_i32s(&a)), obs_bytes(&from_i32s(&b))))
}

macro_rules! n_dispatch {
    ($n:expr, $N:ident => $body:expr; $($L:literal),*) => {
        match $n {
            $( $L => { const $N: usize = $L; $body } )*
            _ => return Err("size-not-instantiated".into()),
        }
    };
}

pub fn dispatch(_m: &mut Machine, name: &str, args: &[&str]) -> Option<R> {
    Some(match name {
        // all 2^16 byte pairs: one output byte per pair, bit0 = ct_eq, bit1 = ct_ne; then 256 bytes: bit0 ct_zero, bit1 ct_nonzero
        "ct_u8_table" => (|| {
            let mut out = Vec::with_capacity(65536 + 256);
            for a in 0..=255u8 {
                for b in 0..=255u8 {
                    let e = a.ct_eq(b).is_true() as u8;
                    let n = a.ct_ne(b).is_true() as u8;
                    out.push(e | n << 1);
                }
            }
            for a in 0..=255u8 {
                let z = a.ct_zero().is_true() as u8;
                let n = a.ct_nonzero().is_true() as u8;
                out.push(z | n << 1);
            }
            Ok(hex(&out))
        })(),
        // ct_u64_table <values, 8 bytes LE each>: for every ordered pair one byte:
        // bit0 zero(a) bit1 nonzero(a) bit2 eq bit3 ne bit4 lt bit5 gt bit6 le bit7 ge
        "ct_u64_table" => (|| {
            need(args, 1)?;
            let vals = to_u64s(&arg_bytes(args[0])?)?;
            let mut out = Vec::with_capacity(vals.len() * vals.len());
            for &a in &vals {
                for &b in &vals {
                    let v = (a.ct_zero().is_true() as u8)
                        | (a.ct_nonzero().is_true() as u8) << 1
                        | (a.ct_eq(b).is_true() as u8) << 2
                        | (a.ct_ne(b).is_true() as u8) << 3
                        | (u64::ct_lt(a, b).is_true() as u8) << 4
                        | (u64::ct_gt(a, b).is_true() as u8) << 5
                        | (u64::ct_le(a, b).is_true() as u8) << 6
                        | (u64::ct_ge(a, b).is_true() as u8) << 7;
                    out.push(v);
                }
            }
            Ok(hex(&out))
        })(),
        // ct_arr8 <a> <b> (same length N, 0..=40): zero nonzero eq ne lt ge on &[u8; N]
        "ct_arr8" => (|| {
            need(args, 2)?;
            let a = arg_bytes(args[0])?;
            let b = arg_bytes(args[1])?;
            if a.len() != b.len() {
                return Err("arrays-differ-in-length".into());
            }
            n_dispatch!(a.len(), NN => arr8_ops::<NN>(&a, &b);
                0,1,2,3,4,5,6,7,8,9,10,11,12,13,14,15,16,17,18,19,20,21,22,23,24,25,26,27,28,29,30,31,32,33,34,35,36,37,38,39,40)
        })(),
        // ct_slice8 <a> <b>: eq ne on &[u8]
        "ct_slice8" => (|| {
            need(args, 2)?;
            let a = arg_bytes(args[0])?;
            let b = arg_bytes(args[1])?;
            let (a, b): (&[u8], &[u8]) = (&a, &b);
            Ok(bits(&[a.ct_eq(b).is_true(), a.ct_ne(b).is_true()]))
        })(),
        // ct_arr64 <a> <b> (bytes, 8 per element, N 0..=8)
        "ct_arr64" => (|| {
            need(args, 2)?;
            let a = to_u64s(&arg_bytes(args[0])?)?;
            let b = to_u64s(&arg_bytes(args[1])?)?;
            if a.len() != b.len() {
                return Err("arrays-differ-in-length".into());
            }
            n_dispatch!(a.len(), NN => arr64_ops::<NN>(&a, &b); 0,1,2,3,4,5,6,7,8)
        })(),
        // ct_slice64 <a> <b>: zero nonzero eq ne on &[u64]
        "ct_slice64" => (|| {
            need(args, 2)?;
            let a = to_u64s(&arg_bytes(args[0])?)?;
            let b = to_u64s(&arg_bytes(args[1])?)?;
            let (a, b): (&[u64], &[u64]) = (&a, &b);
            Ok(bits(&[a.ct_zero().is_true(), a.ct_nonzero().is_true(), a.ct_eq(b).is_true(), a.ct_ne(b).is_true()]))
        })(),
        // choice algebra on the 4 input pairs: and or xor negate(a) is_true(a) is_false(a) into_bool(a)
        "ct_choice" => (|| {
            let mut out = String::new();
            for a in [false, true] {
                for b in [false, true] {
                    let (ca, cb) = (choice(a), choice(b));
                    let into: bool = ca.into();
                    out.push_str(&bits(&[
                        (ca & cb).is_true(),
                        (ca | cb).is_true(),
                        (ca ^ cb).is_true(),
                        ca.negate().is_true(),
                        ca.is_true(),
                        ca.is_false(),
                        into,
                        // every result must be a well formed choice: exactly one of is_true / is_false
                        (ca & cb).is_true() != (ca & cb).is_false(),
                        (ca | cb).is_true() != (ca | cb).is_false(),
                        (ca ^ cb).is_true() != (ca ^ cb).is_false(),
                        ca.negate().is_true() != ca.negate().is_false(),
                    ]));
                    out.push('.');
                }
            }
            Ok(out)
        })(),
        // ct_option <0|1> <bytes>
        "ct_option" => (|| {
            need(args, 2)?;
            let p = arg_u64(args[0])? != 0;
            let v = arg_bytes(args[1])?.to_vec();
            let o: CtOption<Vec<u8>> = (choice(p), v).into();
            Ok(match o.clone().into_option() {
                Some(v) => format!("S.{}", obs_bytes(&v)),
                None => "N".to_string(),
            })
        })(),
        // ct_choice_views <0|1>:<mode>: is_true, is_false, into bool, CtOption(.., choice) of a choice derived in the given way
        "ct_choice_views" => (|| {
            need(args, 1)?;
            let c = parse_choice(args[0])?;
            let o: Option<u8> = CtOption::from((c, 7u8)).into_option();
            let b: bool = c.into();
            Ok(format!("{}{}{}{}", obs_bool(c.is_true()), obs_bool(c.is_false()), obs_bool(b), obs_bool(o.is_some())))
        })(),
        // ct_swapset64 <swap|set> <0|1>[:<mode>] <a> <b>   (8 bytes per limb, N in 1,4,5,10)
        "ct_swapset64" => (|| {
            need(args, 4)?;
            let c = parse_choice(args[1])?;
            let a = to_u64s(&arg_bytes(args[2])?)?;
            let b = to_u64s(&arg_bytes(args[3])?)?;
            n_dispatch!(a.len(), NN => swapset64::<NN>(args[0], c, &a, &b); 1,4,5,10)
        })(),
        "ct_swapset32" => (|| {
            need(args, 4)?;
            let c = parse_choice(args[1])?;
            let a = to_i32s(&arg_bytes(args[2])?)?;
            let b = to_i32s(&arg_bytes(args[3])?)?;
            n_dispatch!(a.len(), NN => swapset32::<NN>(args[0], c, &a, &b); 1,4,5,10)
        })(),
        _ => return None,
    })
}
