//! argument parsing, hex, pattern bytes, aligned buffers

pub type R = Result<String, String>;

pub fn hex(b: &[u8]) -> String {
    const C: &[u8; 16] = b"0123456789abcdef";
    let mut s = String::with_capacity(b.len() * 2);
    for x in b {
        s.push(C[(x >> 4) as usize] as char);
        s.push(C[(x & 15) as usize] as char);
    }
    s
}

pub fn obs_bytes(b: &[u8]) -> String {
    if b.is_empty() {
        "e".to_string() // explicit marker for the empty byte string
    } else {
        hex(b)
    }
}

pub fn obs_bool(b: bool) -> String {
    if b { "T".to_string() } else { "F".to_string() }
}

fn unhex(s: &str) -> Result<Vec<u8>, String> {
    let b = s.as_bytes();
    if b.len() % 2 != 0 {
        return Err("odd-hex".into());
    }
    let mut v = Vec::with_capacity(b.len() / 2);
    fn d(c: u8) -> Result<u8, String> {
        match c {
            b'0'..=b'9' => Ok(c - b'0'),
            b'a'..=b'f' => Ok(c - b'a' + 10),
            b'A'..=b'F' => Ok(c - b'A' + 10),
            _ => Err("bad-hex".into()),
        }
    }
    for i in (0..b.len()).step_by(2) {
        v.push(d(b[i])? << 4 | d(b[i + 1])?);
    }
    Ok(v)
}

/// deterministic content patterns shared with mc/patterns.py
pub fn pat_byte(k: u64, i: u64) -> u8 {
    match k {
        0 => 0x00,
        1 => 0xff,
        2 => (i % 251) as u8,
        3 => 0x80,
        4 => if i % 2 == 0 { 0x55 } else { 0xaa },
        _ => {
            let mut x = (i.wrapping_add(1)).wrapping_mul(0x9E3779B97F4A7C15).wrapping_add(k.wrapping_mul(0xD1B54A32D192ED03));
            x ^= x >> 29;
            x = x.wrapping_mul(0xBF58476D1CE4E5B9);
            x ^= x >> 32;
            (x & 0xff) as u8
        }
    }
}

/// bytes placed at a chosen offset from a 64-byte aligned address
pub struct Buf {
    store: Vec<u8>,
    start: usize,
    len: usize,
}

impl Buf {
    pub fn new(data: &[u8], align_off: usize) -> Buf {
        let mut store = vec![0u8; data.len() + 64 + 64];
        let base = store.as_ptr() as usize;
        let aligned = (base + 63) & !63usize;
        let start = aligned - base + (align_off % 64);
        store[start..start + data.len()].copy_from_slice(data);
        Buf { store, start, len: data.len() }
    }
    pub fn as_slice(&self) -> &[u8] {
        &self.store[self.start..self.start + self.len]
    }
    pub fn as_mut_slice(&mut self) -> &mut [u8] {
        &mut self.store[self.start..self.start + self.len]
    }
    pub fn len(&self) -> usize {
        self.len
    }
}

impl std::ops::Deref for Buf {
    type Target = [u8];
    fn deref(&self) -> &[u8] {
        self.as_slice()
    }
}

pub fn arg_bytes(a: &str) -> Result<Buf, String> {
    let (align, rest) = if let Some(r) = a.strip_prefix('@') {
        let i = r.find(':').ok_or("bad-align")?;
        (r[..i].parse::<usize>().map_err(|_| "bad-align")?, &r[i + 1..])
    } else {
        (0usize, a)
    };
    let data = if let Some(h) = rest.strip_prefix("h:") {
        unhex(h)?
    } else if let Some(p) = rest.strip_prefix("p:") {
        let parts: Vec<&str> = p.split(':').collect();
        if parts.len() != 3 {
            return Err("bad-pat".into());
        }
        let k: u64 = parts[0].parse().map_err(|_| "bad-pat")?;
        let off: u64 = parts[1].parse().map_err(|_| "bad-pat")?;
        let len: u64 = parts[2].parse().map_err(|_| "bad-pat")?;
        (0..len).map(|i| pat_byte(k, off + i)).collect()
    } else {
        return Err(format!("bad-bytes-arg:{}", rest));
    };
    Ok(Buf::new(&data, align))
}

pub fn arg_u64(a: &str) -> Result<u64, String> {
    if let Some(h) = a.strip_prefix("0x") {
        u64::from_str_radix(h, 16).map_err(|_| format!("bad-int:{}", a))
    } else {
        a.parse::<u64>().map_err(|_| format!("bad-int:{}", a))
    }
}

pub fn arg_usize(a: &str) -> Result<usize, String> {
    arg_u64(a).map(|x| x as usize)
}

pub fn arg_slot(a: &str) -> Result<usize, String> {
    a.strip_prefix('s')
        .ok_or_else(|| format!("bad-slot:{}", a))?
        .parse::<usize>()
        .map_err(|_| format!("bad-slot:{}", a))
}

pub fn need(args: &[&str], n: usize) -> Result<(), String> {
    if args.len() < n {
        Err(format!("need-{}-args", n))
    } else {
        Ok(())
    }
}

pub fn arr<const N: usize>(b: &[u8]) -> Result<[u8; N], String> {
    if b.len() != N {
        return Err(format!("need-{}-bytes", N));
    }
    let mut a = [0u8; N];
    a.copy_from_slice(b);
    Ok(a)
}
