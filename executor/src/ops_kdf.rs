//! HKDF, PBKDF2, scrypt, Argon2

use crate::ops_mac::split_kind;
use crate::*;
use cryptoxide::hkdf::{hkdf_expand, hkdf_extract};
use cryptoxide::hmac::Hmac;
use cryptoxide::kdf::argon2;
use cryptoxide::pbkdf2::pbkdf2;
use cryptoxide::scrypt::{scrypt, ScryptParams};

/// the digest object handed to HKDF may have been used before: `dirty` bytes are fed to it first and, with `fin`, a result is taken
fn soil<D: cryptoxide::digest::Digest>(mut d: D, dirty: Option<&[u8]>, fin: bool) -> D {
    if let Some(x) = dirty {
        d.input(x);
        if fin {
            let mut tmp = vec![0u8; d.output_bytes()];
            d.result(&mut tmp);
        }
    }
    d
}

fn do_extract(kind: &str, salt: &[u8], ikm: &[u8], prklen: usize, dirty: Option<&[u8]>, fin: bool) -> Result<Vec<u8>, String> {
    let (k, outlen) = split_kind(kind);
    let mut prk = vec![0xA5u8; prklen];
    with_digest_kind!(k, outlen, d => hkdf_extract(soil(d, dirty, fin), salt, ikm, &mut prk));
    Ok(prk)
}

fn do_expand(kind: &str, prk: &[u8], info: &[u8], l: usize, dirty: Option<&[u8]>, fin: bool) -> Result<Vec<u8>, String> {
    let (k, outlen) = split_kind(kind);
    let mut okm = vec![0xA5u8; l];
    with_digest_kind!(k, outlen, d => hkdf_expand(soil(d, dirty, fin), prk, info, &mut okm));
    Ok(okm)
}

/// the same Hmac object drives two derivations in a row (it is handed in by reference and left reset)
fn do_pbkdf2_twice(kind: &str, pw: &[u8], salt1: &[u8], salt2: &[u8], c: u32, dklen: usize) -> Result<Vec<u8>, String> {
    let (k, outlen) = split_kind(kind);
    let mut out = vec![0xA5u8; 2 * dklen];
    with_digest_kind!(k, outlen, d => {
        let mut mac = Hmac::new(d, pw);
        let (a, b) = out.split_at_mut(dklen);
        pbkdf2(&mut mac, salt1, c, a);
        pbkdf2(&mut mac, salt2, c, b)
    });
    Ok(out)
}

fn do_pbkdf2(kind: &str, pw: &[u8], salt: &[u8], c: u32, dklen: usize) -> Result<Vec<u8>, String> {
    let (k, outlen) = split_kind(kind);
    let mut out = vec![0xA5u8; dklen];
    with_digest_kind!(k, outlen, d => {
        let mut mac = Hmac::new(d, pw);
        pbkdf2(&mut mac, salt, c, &mut out)
    });
    Ok(out)
}

fn argon2_params(ty: &str, version: u32, t: u32, p: u32, m: u32) -> Result<argon2::Params, String> {
    let params = match ty {
        "d" => argon2::Params::argon2d(),
        "i" => argon2::Params::argon2i(),
        "id" => argon2::Params::argon2id(),
        _ => return Err("bad-argon2-type".into()),
    };
    let e = |x: argon2::InvalidParam| format!("{:?}", x);
    // parallelism first, then memory, so that the documented silent raise of memory never triggers for m >= 8p
    params
        .parallelism(p)
        .map_err(e)?
        .memory_kb(m)
        .map_err(e)?
        .iterations(t)
        .map_err(e)?
        .version(version)
        .map_err(e)
}

macro_rules! argon2_arr {
    ($n:expr, $params:expr, $pw:expr, $salt:expr, $key:expr, $aad:expr; $($N:literal),*) => {
        match $n {
            $( $N => argon2::argon2::<$N>($params, $pw, $salt, $key, $aad).to_vec(), )*
            _ => return Err("argon2-array-size-not-instantiated".into()),
        }
    };
}

pub fn dispatch(_m: &mut Machine, name: &str, args: &[&str]) -> Option<R> {
    Some(match name {
        // hkdf_extract <digest> <salt> <ikm> [prk length]
        "hkdf_extract" => (|| {
            need(args, 3)?;
            let salt = arg_bytes(args[1])?;
            let ikm = arg_bytes(args[2])?;
            let prklen = if args.len() > 3 && args[3] != "-" { arg_usize(args[3])? } else { usize::MAX };
            let prklen = if prklen == usize::MAX {
                let (k, outlen) = split_kind(args[0]);
                crate::ops_mac::new_digest(k, &[&format!("{}", outlen)])?.output_bytes()
            } else {
                prklen
            };
            let dirty = if args.len() > 4 { Some(arg_bytes(args[4])?) } else { None };
            let fin = args.len() > 5 && args[5] == "fin";
            Ok(obs_bytes(&do_extract(args[0], &salt, &ikm, prklen, dirty.as_deref(), fin)?))
        })(),
        // hkdf_expand <digest> <prk> <info> <L>
        "hkdf_expand" => (|| {
            need(args, 4)?;
            let prk = arg_bytes(args[1])?;
            let info = arg_bytes(args[2])?;
            let l = arg_usize(args[3])?;
            let dirty = if args.len() > 4 { Some(arg_bytes(args[4])?) } else { None };
            let fin = args.len() > 5 && args[5] == "fin";
            Ok(obs_bytes(&do_expand(args[0], &prk, &info, l, dirty.as_deref(), fin)?))
        })(),
        // pbkdf2_after_reset <digest> <password> <salt> <c> <dklen> <bytes fed and abandoned by reset before>
        "pbkdf2_after_reset" => (|| {
            need(args, 6)?;
            let pw = arg_bytes(args[1])?;
            let salt = arg_bytes(args[2])?;
            let c = arg_u64(args[3])? as u32;
            let dklen = arg_usize(args[4])?;
            let pre = arg_bytes(args[5])?;
            let (k, outlen) = split_kind(args[0]);
            let mut out = vec![0xA5u8; dklen];
            with_digest_kind!(k, outlen, d => {
                use cryptoxide::mac::Mac;
                let mut mac = Hmac::new(d, &pw);
                mac.input(&pre);
                mac.reset();
                pbkdf2(&mut mac, &salt, c, &mut out)
            });
            Ok(obs_bytes(&out))
        })(),
        // pbkdf2_twice <digest> <password> <salt1> <salt2> <c> <dklen>
        "pbkdf2_twice" => (|| {
            need(args, 6)?;
            let pw = arg_bytes(args[1])?;
            let s1 = arg_bytes(args[2])?;
            let s2 = arg_bytes(args[3])?;
            let c = arg_u64(args[4])? as u32;
            let dklen = arg_usize(args[5])?;
            Ok(obs_bytes(&do_pbkdf2_twice(args[0], &pw, &s1, &s2, c, dklen)?))
        })(),
        // pbkdf2 <digest> <password> <salt> <c> <dklen>
        "pbkdf2" => (|| {
            need(args, 5)?;
            let pw = arg_bytes(args[1])?;
            let salt = arg_bytes(args[2])?;
            let c = arg_u64(args[3])? as u32;
            let dklen = arg_usize(args[4])?;
            Ok(obs_bytes(&do_pbkdf2(args[0], &pw, &salt, c, dklen)?))
        })(),
        // scrypt <password> <salt> <log_n> <r> <p> <dklen>
        "scrypt" => (|| {
            need(args, 6)?;
            let pw = arg_bytes(args[0])?;
            let salt = arg_bytes(args[1])?;
            let log_n = arg_u64(args[2])? as u8;
            let r = arg_u64(args[3])? as u32;
            let p = arg_u64(args[4])? as u32;
            let dklen = arg_usize(args[5])?;
            let params = ScryptParams::new(log_n, r, p);
            let mut out = vec![0xA5u8; dklen];
            scrypt(&pw, &salt, &params, &mut out);
            Ok(obs_bytes(&out))
        })(),
        // scrypt_params <log_n> <r> <p>: constructor only
        "scrypt_params" => (|| {
            need(args, 3)?;
            let log_n = arg_u64(args[0])?;
            if log_n > 255 {
                return Err("log_n-not-u8".into());
            }
            let r = arg_u64(args[1])? as u32;
            let p = arg_u64(args[2])? as u32;
            let _ = ScryptParams::new(log_n as u8, r, p);
            Ok("-".into())
        })(),
        // argon2 <d|i|id> <version> <t> <p> <m> <pw> <salt> <key> <aad> <taglen> <at|arr>
        "argon2" => (|| {
            need(args, 11)?;
            let version = arg_u64(args[1])? as u32;
            let t = arg_u64(args[2])? as u32;
            let p = arg_u64(args[3])? as u32;
            let mm = arg_u64(args[4])? as u32;
            let pw = arg_bytes(args[5])?;
            let salt = arg_bytes(args[6])?;
            let key = arg_bytes(args[7])?;
            let aad = arg_bytes(args[8])?;
            let taglen = arg_usize(args[9])?;
            let params = match argon2_params(args[0], version, t, p, mm) {
                Ok(p) => p,
                Err(e) => return Ok(format!("ERR:{}", e)),
            };
            let tag = if args[10] == "arr" {
                argon2_arr!(taglen, &params, &pw, &salt, &key, &aad; 4, 5, 16, 31, 32, 33, 63, 64, 65, 96, 97, 128, 300)
            } else {
                let mut tag = vec![0xA5u8; taglen];
                argon2::argon2_at(&params, &pw, &salt, &key, &aad, &mut tag);
                tag
            };
            Ok(obs_bytes(&tag))
        })(),
        // argon2_built <d|i|id> <setter list: p3,m24,t2,v19,...> <pw> <salt> <key> <aad> <taglen>
        // the parameter object is built by calling the public setters in exactly the listed order
        "argon2_built" => (|| {
            need(args, 7)?;
            let mut params = match args[0] {
                "d" => argon2::Params::argon2d(),
                "i" => argon2::Params::argon2i(),
                "id" => argon2::Params::argon2id(),
                _ => return Err("bad-argon2-type".into()),
            };
            for tok in args[1].split(',') {
                if tok.is_empty() || tok == "-" {
                    continue;
                }
                let v: u32 = tok[1..].parse().map_err(|_| "bad-setter-value".to_string())?;
                let r = match &tok[..1] {
                    "p" => params.parallelism(v),
                    "m" => params.memory_kb(v),
                    "t" => params.iterations(v),
                    "v" => params.version(v),
                    _ => return Err("bad-setter".into()),
                };
                params = match r {
                    Ok(p) => p,
                    Err(e) => return Ok(format!("ERR:{:?}", e)),
                };
            }
            let pw = arg_bytes(args[2])?;
            let salt = arg_bytes(args[3])?;
            let key = arg_bytes(args[4])?;
            let aad = arg_bytes(args[5])?;
            let taglen = arg_usize(args[6])?;
            let mut tag = vec![0xA5u8; taglen];
            argon2::argon2_at(&params, &pw, &salt, &key, &aad, &mut tag);
            Ok(obs_bytes(&tag))
        })(),
        // argon2_index <m> <p> <pass> <slice> <index> <same_lane 0|1> <j1>,<j1>,... (hook): reference-block index for each J1
        "argon2_index" => (|| {
            need(args, 7)?;
            let mm = arg_u64(args[0])? as u32;
            let p = arg_u64(args[1])? as u32;
            let pass = arg_u64(args[2])? as u32;
            let slice = arg_u64(args[3])? as u32;
            let index = arg_u64(args[4])? as u32;
            let same = arg_u64(args[5])? != 0;
            let params = match argon2_params("d", 0x13, pass + 1, p, mm) {
                Ok(p) => p,
                Err(e) => return Ok(format!("ERR:{}", e)),
            };
            let mut out: Vec<String> = Vec::new();
            for tok in args[6].split(',') {
                let j1: u32 = tok.parse().map_err(|_| "bad-j1".to_string())?;
                out.push(format!("{}", argon2::verif_index_alpha(&params, pass, slice, index, j1, same)));
            }
            Ok(out.join(","))
        })(),
        // argon2_setter <parallelism|iterations|version|memory_kb> <value>
        "argon2_setter" => (|| {
            need(args, 2)?;
            let v = arg_u64(args[1])? as u32;
            let p = argon2::Params::argon2id();
            let r = match args[0] {
                "parallelism" => p.parallelism(v).map(|_| ()),
                "iterations" => p.iterations(v).map(|_| ()),
                "version" => p.version(v).map(|_| ()),
                "memory_kb" => p.memory_kb(v).map(|_| ()),
                _ => return Err("bad-setter".into()),
            };
            Ok(match r {
                Ok(()) => "OK".to_string(),
                Err(e) => format!("ERR:{:?}", e),
            })
        })(),
        _ => return None,
    })
}
