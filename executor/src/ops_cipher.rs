//! stream ciphers, the portable ChaCha engine (hook), DRG, ChaCha20-Poly1305

use crate::*;
use cryptoxide::chacha::verif_portable::Engine as PEngine;
use cryptoxide::chacha20::{ChaCha, ChaChaOriginal, XChaCha};
use cryptoxide::chacha20poly1305 as cp;
use cryptoxide::drg::chacha::Drg;
use cryptoxide::salsa20::{Salsa, XSalsa};

pub trait SCipher {
    fn process(&mut self, input: &[u8], output: &mut [u8]);
    fn process_mut(&mut self, data: &mut [u8]);
    fn seek(&mut self, _pos: u32) -> Result<(), String> {
        Err("unsupported".into())
    }
    fn setctr64(&mut self, _pos: u64) -> Result<(), String> {
        Err("unsupported".into())
    }
    fn bclone(&self) -> Box<dyn SCipher>;
}

macro_rules! scipher_common {
    ($ty:ident) => {
        fn process(&mut self, input: &[u8], output: &mut [u8]) {
            $ty::<RN>::process(self, input, output)
        }
        fn process_mut(&mut self, data: &mut [u8]) {
            $ty::<RN>::process_mut(self, data)
        }
        fn bclone(&self) -> Box<dyn SCipher> {
            Box::new(self.clone())
        }
    };
}

impl<const RN: usize> SCipher for ChaCha<RN> {
    scipher_common!(ChaCha);
    fn seek(&mut self, pos: u32) -> Result<(), String> {
        ChaCha::<RN>::seek(self, pos);
        Ok(())
    }
}
impl<const RN: usize> SCipher for XChaCha<RN> {
    scipher_common!(XChaCha);
    fn seek(&mut self, pos: u32) -> Result<(), String> {
        XChaCha::<RN>::seek(self, pos);
        Ok(())
    }
}
impl<const RN: usize> SCipher for ChaChaOriginal<RN> {
    scipher_common!(ChaChaOriginal);
    fn setctr64(&mut self, pos: u64) -> Result<(), String> {
        self.verif_set_block_counter(pos);
        Ok(())
    }
}
impl<const RN: usize> SCipher for Salsa<RN> {
    scipher_common!(Salsa);
    fn setctr64(&mut self, pos: u64) -> Result<(), String> {
        self.verif_set_block_counter(pos);
        Ok(())
    }
}
impl<const RN: usize> SCipher for XSalsa<RN> {
    scipher_common!(XSalsa);
    fn setctr64(&mut self, pos: u64) -> Result<(), String> {
        self.verif_set_block_counter(pos);
        Ok(())
    }
}

macro_rules! rounds_dispatch {
    ($r:expr, $R:ident => $body:expr) => {
        match $r {
            7 => { const $R: usize = 7; $body }
            8 => { const $R: usize = 8; $body }
            10 => { const $R: usize = 10; $body }
            12 => { const $R: usize = 12; $body }
            20 => { const $R: usize = 20; $body }
            21 => { const $R: usize = 21; $body }
            _ => return Err("rounds-not-instantiated".into()),
        }
    };
}

fn new_cipher(kind: &str, rounds: usize, key: &[u8], nonce: &[u8]) -> Result<Box<dyn SCipher>, String> {
    Ok(match kind {
        "chacha" => {
            let n: [u8; 12] = arr(nonce)?;
            rounds_dispatch!(rounds, RR => Box::new(ChaCha::<RR>::new(key, &n)) as Box<dyn SCipher>)
        }
        "chachao" => {
            let n: [u8; 8] = arr(nonce)?;
            rounds_dispatch!(rounds, RR => Box::new(ChaChaOriginal::<RR>::new(key, &n)) as Box<dyn SCipher>)
        }
        "xchacha" => {
            let n: [u8; 24] = arr(nonce)?;
            let k: [u8; 32] = arr(key)?;
            rounds_dispatch!(rounds, RR => Box::new(XChaCha::<RR>::new(&k, &n)) as Box<dyn SCipher>)
        }
        "salsa" => {
            let n: [u8; 8] = arr(nonce)?;
            rounds_dispatch!(rounds, RR => Box::new(Salsa::<RR>::new(key, &n)) as Box<dyn SCipher>)
        }
        "xsalsa" => {
            let n: [u8; 24] = arr(nonce)?;
            let k: [u8; 32] = arr(key)?;
            rounds_dispatch!(rounds, RR => Box::new(XSalsa::<RR>::new(&k, &n)) as Box<dyn SCipher>)
        }
        _ => return Err(format!("unknown-cipher-kind:{}", kind)),
    })
}

/// portable engine driven the way the contexts drive their engine:
/// block = init -> (clone) rounds -> add_back(initial) -> output_bytes ; then increment / increment64
fn portable_blocks<const RR: usize>(
    key: &[u8],
    nonce: &[u8],
    ctr: Option<u64>,
    mode64: bool,
    nblocks: usize,
) -> Vec<u8> {
    let mut st = PEngine::<RR>::init(key, nonce);
    if let Some(c) = ctr {
        if mode64 {
            st.verif_set_counter64(c)
        } else {
            st.set_counter(c as u32)
        }
    }
    let mut out = vec![0u8; nblocks * 64];
    for b in 0..nblocks {
        let mut w = st.clone();
        w.rounds();
        w.add_back(&st);
        w.output_bytes(&mut out[b * 64..(b + 1) * 64]);
        if mode64 {
            st.increment64()
        } else {
            st.increment()
        }
    }
    out
}

fn portable_hchacha<const RR: usize>(key: &[u8], nonce16: &[u8]) -> Vec<u8> {
    let mut st = PEngine::<RR>::init(key, nonce16);
    st.rounds();
    let mut out = [0u8; 32];
    st.output_ad_bytes(&mut out);
    out.to_vec()
}

pub trait DrgObj {
    fn bytes(&mut self, n: usize) -> Result<Vec<u8>, String>;
    fn fill_bytes(&mut self, prior: &[u8]) -> Result<Vec<u8>, String>;
    fn fill_slice(&mut self, buf: &mut [u8]);
    fn u32(&mut self) -> u32;
    fn u64(&mut self) -> u64;
}

macro_rules! drg_n {
    ($self:ident, $n:expr, $N:ident => $body:expr) => {
        match $n {
            0 => { const $N: usize = 0; $body }
            1 => { const $N: usize = 1; $body }
            4 => { const $N: usize = 4; $body }
            8 => { const $N: usize = 8; $body }
            16 => { const $N: usize = 16; $body }
            25 => { const $N: usize = 25; $body }
            32 => { const $N: usize = 32; $body }
            63 => { const $N: usize = 63; $body }
            64 => { const $N: usize = 64; $body }
            65 => { const $N: usize = 65; $body }
            128 => { const $N: usize = 128; $body }
            129 => { const $N: usize = 129; $body }
            _ => return Err("drg-size-not-instantiated".into()),
        }
    };
}

impl<const RN: usize> DrgObj for Drg<RN> {
    fn bytes(&mut self, n: usize) -> Result<Vec<u8>, String> {
        Ok(drg_n!(self, n, NN => Drg::<RN>::bytes::<NN>(self).to_vec()))
    }
    fn fill_bytes(&mut self, prior: &[u8]) -> Result<Vec<u8>, String> {
        Ok(drg_n!(self, prior.len(), NN => {
            let mut a: [u8; NN] = arr(prior)?;
            Drg::<RN>::fill_bytes::<NN>(self, &mut a);
            a.to_vec()
        }))
    }
    fn fill_slice(&mut self, buf: &mut [u8]) {
        Drg::<RN>::fill_slice(self, buf)
    }
    fn u32(&mut self) -> u32 {
        Drg::<RN>::u32(self)
    }
    fn u64(&mut self) -> u64 {
        Drg::<RN>::u64(self)
    }
}

/// AEAD objects: the one-shot object and the three incremental phases
pub trait AeadObj {
    fn as_any(&mut self) -> &mut dyn std::any::Any;
    fn bclone(&self) -> Box<dyn AeadObj>;
    fn into_any(self: Box<Self>) -> Box<dyn std::any::Any>;
}
macro_rules! aead_obj {
    ($ty:ty) => {
        impl<const RN: usize> AeadObj for $ty {
            fn as_any(&mut self) -> &mut dyn std::any::Any {
                self
            }
            fn bclone(&self) -> Box<dyn AeadObj> {
                Box::new(self.clone())
            }
            fn into_any(self: Box<Self>) -> Box<dyn std::any::Any> {
                self
            }
        }
    };
}
aead_obj!(cp::ChaChaPoly1305<RN>);
aead_obj!(cp::Context<RN>);
aead_obj!(cp::ContextEncryption<RN>);
aead_obj!(cp::ContextDecryption<RN>);

fn with_cipher<F: FnOnce(&mut Box<dyn SCipher>) -> R>(m: &mut Machine, slot: usize, f: F) -> R {
    match m.slots.get_mut(slot) {
        Some(Some(Obj::Cipher(h))) => f(h),
        Some(None) | None => Ok("ABSENT".into()),
        _ => Err("not-a-cipher".into()),
    }
}
fn with_drg<F: FnOnce(&mut Box<dyn DrgObj>) -> R>(m: &mut Machine, slot: usize, f: F) -> R {
    match m.slots.get_mut(slot) {
        Some(Some(Obj::Drg(h))) => f(h),
        Some(None) | None => Ok("ABSENT".into()),
        _ => Err("not-a-drg".into()),
    }
}

/// try every instantiated round count for a &mut downcast of an AEAD object
macro_rules! aead_mut {
    ($obj:expr, $ty:ident, $x:ident => $body:expr) => {{
        let any = $obj.as_any();
        if let Some($x) = any.downcast_mut::<cp::$ty<8>>() { $body }
        else if let Some($x) = any.downcast_mut::<cp::$ty<12>>() { $body }
        else if let Some($x) = any.downcast_mut::<cp::$ty<20>>() { $body }
        else if let Some($x) = any.downcast_mut::<cp::$ty<7>>() { $body }
        else if let Some($x) = any.downcast_mut::<cp::$ty<10>>() { $body }
        else if let Some($x) = any.downcast_mut::<cp::$ty<21>>() { $body }
        else { return Err(concat!("not-a-", stringify!($ty)).into()) }
    }};
}
/// same for consuming calls; `$fail` receives the box back when the type does not match
macro_rules! aead_take {
    ($any:expr, $ty:ident, $x:ident => $body:expr) => {{
        let any: Box<dyn std::any::Any> = $any;
        let any = match any.downcast::<cp::$ty<8>>() { Ok($x) => { let $x = *$x; return $body; } Err(a) => a };
        let any = match any.downcast::<cp::$ty<12>>() { Ok($x) => { let $x = *$x; return $body; } Err(a) => a };
        let any = match any.downcast::<cp::$ty<20>>() { Ok($x) => { let $x = *$x; return $body; } Err(a) => a };
        let any = match any.downcast::<cp::$ty<7>>() { Ok($x) => { let $x = *$x; return $body; } Err(a) => a };
        let any = match any.downcast::<cp::$ty<10>>() { Ok($x) => { let $x = *$x; return $body; } Err(a) => a };
        match any.downcast::<cp::$ty<21>>() { Ok($x) => { let $x = *$x; return $body; } Err(_) => return Err(concat!("not-a-", stringify!($ty)).into()) }
    }};
}

fn take_aead(m: &mut Machine, slot: usize) -> Result<Option<Box<dyn AeadObj>>, String> {
    match m.take(slot) {
        Some(Obj::Aead(h)) => Ok(Some(h)),
        None => Ok(None),
        Some(o) => {
            m.put(slot, o);
            Err("not-an-aead".into())
        }
    }
}

pub fn dispatch(m: &mut Machine, name: &str, args: &[&str]) -> Option<R> {
    Some(match name {
        // cnew <slot> <kind> <rounds> <key> <nonce>
        "cnew" => (|| {
            need(args, 5)?;
            let s = arg_slot(args[0])?;
            let rounds = arg_usize(args[2])?;
            let key = arg_bytes(args[3])?;
            let nonce = arg_bytes(args[4])?;
            let c = new_cipher(args[1], rounds, &key, &nonce)?;
            m.put(s, Obj::Cipher(c));
            Ok("-".into())
        })(),
        // process <slot> <data> [output length|-] [output alignment]  (separate input / output buffers)
        "process" => (|| {
            need(args, 2)?;
            let s = arg_slot(args[0])?;
            let d = arg_bytes(args[1])?;
            let outlen = if args.len() > 2 && args[2] != "-" { arg_usize(args[2])? } else { d.len() };
            let outalign = if args.len() > 3 { arg_usize(args[3])? } else { 0 };
            with_cipher(m, s, |c| {
                let mut out = Buf::new(&vec![0xA5u8; outlen], outalign);
                c.process(&d, out.as_mut_slice());
                Ok(obs_bytes(&out))
            })
        })(),
        // process_rep <slot> <chunk> <count>: the chunk processed in place <count> times (many small calls); answer of the last call
        "process_rep" => (|| {
            need(args, 3)?;
            let s = arg_slot(args[0])?;
            let d = arg_bytes(args[1])?;
            let n = arg_usize(args[2])?;
            with_cipher(m, s, |c| {
                let mut last = d.as_slice().to_vec();
                for _ in 0..n {
                    last.copy_from_slice(d.as_slice());
                    c.process_mut(&mut last);
                }
                Ok(obs_bytes(&last))
            })
        })(),
        "process_mut" => (|| {
            need(args, 2)?;
            let s = arg_slot(args[0])?;
            let mut d = arg_bytes(args[1])?;
            with_cipher(m, s, |c| {
                c.process_mut(d.as_mut_slice());
                Ok(obs_bytes(&d))
            })
        })(),
        "seek" => (|| {
            need(args, 2)?;
            let s = arg_slot(args[0])?;
            let p = arg_u64(args[1])?;
            with_cipher(m, s, |c| {
                c.seek(p as u32)?;
                Ok("-".into())
            })
        })(),
        "setctr64" => (|| {
            need(args, 2)?;
            let s = arg_slot(args[0])?;
            let p = arg_u64(args[1])?;
            with_cipher(m, s, |c| {
                c.setctr64(p)?;
                Ok("-".into())
            })
        })(),
        "cclone" => (|| {
            need(args, 2)?;
            let s = arg_slot(args[0])?;
            let d = arg_slot(args[1])?;
            let c = match m.slots.get(s) {
                Some(Some(Obj::Cipher(h))) => h.bclone(),
                Some(None) | None => return Ok("ABSENT".into()),
                _ => return Err("not-a-cipher".into()),
            };
            m.put(d, Obj::Cipher(c));
            Ok("-".into())
        })(),
        // cprobe <slot> <n>: next n keystream bytes of a clone
        "cprobe" => (|| {
            need(args, 2)?;
            let s = arg_slot(args[0])?;
            let n = arg_usize(args[1])?;
            with_cipher(m, s, |c| {
                let mut cl = c.bclone();
                let mut z = vec![0u8; n];
                cl.process_mut(&mut z);
                Ok(obs_bytes(&z))
            })
        })(),
        // pchacha <rounds> <key> <nonce> <ctr|none> <32|64> <nblocks>: portable engine keystream blocks
        "pchacha" => (|| {
            need(args, 6)?;
            let rounds = arg_usize(args[0])?;
            let key = arg_bytes(args[1])?;
            let nonce = arg_bytes(args[2])?;
            let ctr = if args[3] == "none" { None } else { Some(arg_u64(args[3])?) };
            let mode64 = arg_usize(args[4])? == 64;
            let nb = arg_usize(args[5])?;
            if !(key.len() == 16 || key.len() == 32) || !(nonce.len() == 8 || nonce.len() == 12 || nonce.len() == 16) {
                return Err("pchacha-bad-lengths".into());
            }
            Ok(obs_bytes(&rounds_dispatch!(rounds, RR => portable_blocks::<RR>(&key, &nonce, ctr, mode64, nb))))
        })(),
        // phchacha <rounds> <key32> <nonce16>: HChaCha through the portable engine
        "phchacha" => (|| {
            need(args, 3)?;
            let rounds = arg_usize(args[0])?;
            let key = arg_bytes(args[1])?;
            let nonce = arg_bytes(args[2])?;
            if !(key.len() == 16 || key.len() == 32) || nonce.len() != 16 {
                return Err("phchacha-bad-lengths".into());
            }
            Ok(obs_bytes(&rounds_dispatch!(rounds, RR => portable_hchacha::<RR>(&key, &nonce))))
        })(),
        // ---- DRG
        "drgnew" => (|| {
            need(args, 3)?;
            let s = arg_slot(args[0])?;
            let rounds = arg_usize(args[1])?;
            let seed = arg_bytes(args[2])?;
            let seed32: [u8; 32] = arr(&seed)?;
            let d: Box<dyn DrgObj> = rounds_dispatch!(rounds, RR => Box::new(Drg::<RR>::new(&seed32)) as Box<dyn DrgObj>);
            m.put(s, Obj::Drg(d));
            Ok("-".into())
        })(),
        "drg_bytes" => (|| {
            need(args, 2)?;
            let s = arg_slot(args[0])?;
            let n = arg_usize(args[1])?;
            with_drg(m, s, |d| Ok(obs_bytes(&d.bytes(n)?)))
        })(),
        "drg_fill_bytes" => (|| {
            need(args, 2)?;
            let s = arg_slot(args[0])?;
            let prior = arg_bytes(args[1])?;
            with_drg(m, s, |d| Ok(obs_bytes(&d.fill_bytes(&prior)?)))
        })(),
        "drg_fill_slice" => (|| {
            need(args, 2)?;
            let s = arg_slot(args[0])?;
            let mut prior = arg_bytes(args[1])?;
            with_drg(m, s, |d| {
                d.fill_slice(prior.as_mut_slice());
                Ok(obs_bytes(&prior))
            })
        })(),
        "drg_u32" => (|| {
            need(args, 1)?;
            let s = arg_slot(args[0])?;
            with_drg(m, s, |d| Ok(format!("{}", d.u32())))
        })(),
        "drg_u64" => (|| {
            need(args, 1)?;
            let s = arg_slot(args[0])?;
            with_drg(m, s, |d| Ok(format!("{}", d.u64())))
        })(),
        // ---- one-shot AEAD: aead_new <slot> <rounds> <key> <nonce> <aad>
        "aead_new" => (|| {
            need(args, 5)?;
            let s = arg_slot(args[0])?;
            let rounds = arg_usize(args[1])?;
            let key = arg_bytes(args[2])?;
            let nonce = arg_bytes(args[3])?;
            let n12: [u8; 12] = arr(&nonce)?;
            let aad = arg_bytes(args[4])?;
            let o: Box<dyn AeadObj> = rounds_dispatch!(rounds, RR => Box::new(cp::ChaChaPoly1305::<RR>::new(&key, &n12, &aad)) as Box<dyn AeadObj>);
            m.put(s, Obj::Aead(o));
            Ok("-".into())
        })(),
        // aead_enc <slot> <plaintext> [output length] [tag length] -> <ct>.<tag>
        "aead_enc" => (|| {
            need(args, 2)?;
            let s = arg_slot(args[0])?;
            let pt = arg_bytes(args[1])?;
            let outlen = if args.len() > 2 { arg_usize(args[2])? } else { pt.len() };
            let taglen = if args.len() > 3 { arg_usize(args[3])? } else { 16 };
            match m.slots.get_mut(s) {
                Some(Some(Obj::Aead(o))) => {
                    let mut out = vec![0xA5u8; outlen];
                    let mut tag = vec![0xA5u8; taglen];
                    aead_mut!(o, ChaChaPoly1305, x => x.encrypt(&pt, &mut out, &mut tag));
                    Ok(format!("{}.{}", obs_bytes(&out), obs_bytes(&tag)))
                }
                Some(None) | None => Ok("ABSENT".into()),
                _ => Err("not-an-aead".into()),
            }
        })(),
        // aead_dec <slot> <ciphertext> <tag> [output length] -> T.<pt> | F.<buffer>
        "aead_dec" => (|| {
            need(args, 3)?;
            let s = arg_slot(args[0])?;
            let ct = arg_bytes(args[1])?;
            let tag = arg_bytes(args[2])?;
            let outlen = if args.len() > 3 { arg_usize(args[3])? } else { ct.len() };
            match m.slots.get_mut(s) {
                Some(Some(Obj::Aead(o))) => {
                    let mut out = vec![0xA5u8; outlen];
                    let ok = aead_mut!(o, ChaChaPoly1305, x => x.decrypt(&ct, &mut out, &tag));
                    Ok(format!("{}.{}", obs_bool(ok), obs_bytes(&out)))
                }
                Some(None) | None => Ok("ABSENT".into()),
                _ => Err("not-an-aead".into()),
            }
        })(),
        "aclone" => (|| {
            need(args, 2)?;
            let s = arg_slot(args[0])?;
            let d = arg_slot(args[1])?;
            let c = match m.slots.get(s) {
                Some(Some(Obj::Aead(h))) => h.bclone(),
                Some(None) | None => return Ok("ABSENT".into()),
                _ => return Err("not-an-aead".into()),
            };
            m.put(d, Obj::Aead(c));
            Ok("-".into())
        })(),
        // ---- incremental AEAD
        "actx_new" => (|| {
            need(args, 4)?;
            let s = arg_slot(args[0])?;
            let rounds = arg_usize(args[1])?;
            let key = arg_bytes(args[2])?;
            let nonce = arg_bytes(args[3])?;
            let n12: [u8; 12] = arr(&nonce)?;
            let o: Box<dyn AeadObj> = rounds_dispatch!(rounds, RR => Box::new(cp::Context::<RR>::new(&key, &n12)) as Box<dyn AeadObj>);
            m.put(s, Obj::Aead(o));
            Ok("-".into())
        })(),
        "actx_aad" => (|| {
            need(args, 2)?;
            let s = arg_slot(args[0])?;
            let d = arg_bytes(args[1])?;
            match m.slots.get_mut(s) {
                Some(Some(Obj::Aead(o))) => {
                    aead_mut!(o, Context, x => x.add_data(&d));
                    Ok("-".into())
                }
                Some(None) | None => Ok("ABSENT".into()),
                _ => Err("not-an-aead".into()),
            }
        })(),
        "actx_toenc" => (|| {
            need(args, 1)?;
            let s = arg_slot(args[0])?;
            match take_aead(m, s)? {
                None => Ok("ABSENT".into()),
                Some(o) => {
                    let r: Result<Box<dyn AeadObj>, String> = (|| {
                        aead_take!(o.into_any(), Context, x => Ok(Box::new(x.to_encryption()) as Box<dyn AeadObj>))
                    })();
                    m.put(s, Obj::Aead(r?));
                    Ok("-".into())
                }
            }
        })(),
        "actx_todec" => (|| {
            need(args, 1)?;
            let s = arg_slot(args[0])?;
            match take_aead(m, s)? {
                None => Ok("ABSENT".into()),
                Some(o) => {
                    let r: Result<Box<dyn AeadObj>, String> = (|| {
                        aead_take!(o.into_any(), Context, x => Ok(Box::new(x.to_decryption()) as Box<dyn AeadObj>))
                    })();
                    m.put(s, Obj::Aead(r?));
                    Ok("-".into())
                }
            }
        })(),
        // aenc <slot> <data> [output length]
        "aenc" => (|| {
            need(args, 2)?;
            let s = arg_slot(args[0])?;
            let d = arg_bytes(args[1])?;
            let outlen = if args.len() > 2 { arg_usize(args[2])? } else { d.len() };
            match m.slots.get_mut(s) {
                Some(Some(Obj::Aead(o))) => {
                    let mut out = vec![0xA5u8; outlen];
                    aead_mut!(o, ContextEncryption, x => x.encrypt(&d, &mut out));
                    Ok(obs_bytes(&out))
                }
                Some(None) | None => Ok("ABSENT".into()),
                _ => Err("not-an-aead".into()),
            }
        })(),
        "aenc_mut" => (|| {
            need(args, 2)?;
            let s = arg_slot(args[0])?;
            let mut d = arg_bytes(args[1])?;
            match m.slots.get_mut(s) {
                Some(Some(Obj::Aead(o))) => {
                    aead_mut!(o, ContextEncryption, x => x.encrypt_mut(d.as_mut_slice()));
                    Ok(obs_bytes(&d))
                }
                Some(None) | None => Ok("ABSENT".into()),
                _ => Err("not-an-aead".into()),
            }
        })(),
        "adec" => (|| {
            need(args, 2)?;
            let s = arg_slot(args[0])?;
            let d = arg_bytes(args[1])?;
            let outlen = if args.len() > 2 { arg_usize(args[2])? } else { d.len() };
            match m.slots.get_mut(s) {
                Some(Some(Obj::Aead(o))) => {
                    let mut out = vec![0xA5u8; outlen];
                    aead_mut!(o, ContextDecryption, x => x.decrypt(&d, &mut out));
                    Ok(obs_bytes(&out))
                }
                Some(None) | None => Ok("ABSENT".into()),
                _ => Err("not-an-aead".into()),
            }
        })(),
        "adec_mut" => (|| {
            need(args, 2)?;
            let s = arg_slot(args[0])?;
            let mut d = arg_bytes(args[1])?;
            match m.slots.get_mut(s) {
                Some(Some(Obj::Aead(o))) => {
                    aead_mut!(o, ContextDecryption, x => x.decrypt_mut(d.as_mut_slice()));
                    Ok(obs_bytes(&d))
                }
                Some(None) | None => Ok("ABSENT".into()),
                _ => Err("not-an-aead".into()),
            }
        })(),
        // adec_rep <slot> <chunk> <count>: the chunk decrypted in place <count> times (very large running totals); output discarded
        "adec_rep" => (|| {
            need(args, 3)?;
            let s = arg_slot(args[0])?;
            let d = arg_bytes(args[1])?;
            let n = arg_usize(args[2])?;
            match m.slots.get_mut(s) {
                Some(Some(Obj::Aead(o))) => {
                    let mut work = d.as_slice().to_vec();
                    for _ in 0..n {
                        work.copy_from_slice(d.as_slice());
                        aead_mut!(o, ContextDecryption, x => x.decrypt_mut(&mut work));
                    }
                    Ok("-".into())
                }
                Some(None) | None => Ok("ABSENT".into()),
                _ => Err("not-an-aead".into()),
            }
        })(),
        "aenc_fin" => (|| {
            need(args, 1)?;
            let s = arg_slot(args[0])?;
            match take_aead(m, s)? {
                None => Ok("ABSENT".into()),
                Some(o) => aead_take!(o.into_any(), ContextEncryption, x => Ok(obs_bytes(&x.finalize().0))),
            }
        })(),
        // adec_fin <slot> <tag16> -> T | F
        "adec_fin" => (|| {
            need(args, 2)?;
            let s = arg_slot(args[0])?;
            let t = arg_bytes(args[1])?;
            let t16: [u8; 16] = arr(&t)?;
            match take_aead(m, s)? {
                None => Ok("ABSENT".into()),
                Some(o) => aead_take!(o.into_any(), ContextDecryption, x => Ok(obs_bool(x.finalize(&cp::Tag(t16)) == cp::DecryptionResult::Match))),
            }
        })(),
        // tag_eq <a16> <b16>
        "tag_eq" => (|| {
            need(args, 2)?;
            let a: [u8; 16] = arr(&arg_bytes(args[0])?)?;
            let b: [u8; 16] = arr(&arg_bytes(args[1])?)?;
            let (ta, tb) = (cp::Tag(a), cp::Tag(b));
            use cryptoxide::constant_time::CtEqual;
            let r1 = ta == tb;
            let r2 = tb == ta;
            let r3 = (&ta).ct_eq(&tb).is_true();
            let r4 = (&ta).ct_ne(&tb).is_true();
            Ok(format!("{}{}{}{}", obs_bool(r1), obs_bool(r2), obs_bool(r3), obs_bool(r4)))
        })(),
        _ => return None,
    })
}
