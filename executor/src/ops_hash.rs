//! hashing::* contexts and one-shot functions

use crate::*;
use cryptoxide::hashing;

pub trait HCtx {
    fn update(self: Box<Self>, d: &[u8]) -> Box<dyn HCtx>;
    fn update_mut(&mut self, d: &[u8]);
    fn bclone(&self) -> Box<dyn HCtx>;
    fn reset(&mut self);
    fn finalize(self: Box<Self>) -> Vec<u8>;
    fn finalize_reset(&mut self) -> Vec<u8>;
    fn reset_with_key(&mut self, _k: &[u8]) -> Result<(), String> {
        Err("unsupported".into())
    }
    fn finalize_reset_with_key(&mut self, _k: &[u8]) -> Result<Vec<u8>, String> {
        Err("unsupported".into())
    }
    fn finalize_at(self: Box<Self>, _len: usize) -> Result<Vec<u8>, String> {
        Err("unsupported".into())
    }
    fn finalize_reset_at(&mut self, _len: usize) -> Result<Vec<u8>, String> {
        Err("unsupported".into())
    }
    fn finalize_reset_with_key_at(&mut self, _k: &[u8], _len: usize) -> Result<Vec<u8>, String> {
        Err("unsupported".into())
    }
    fn set_counter(&mut self, _t0: u64, _t1: u64) -> Result<(), String> {
        Err("unsupported".into())
    }
    fn output_bits(&self) -> Option<usize> {
        None
    }
}

macro_rules! plain_ctx {
    ($ty:ty) => {
        impl HCtx for $ty {
            fn update(self: Box<Self>, d: &[u8]) -> Box<dyn HCtx> {
                Box::new((*self).update(d))
            }
            fn update_mut(&mut self, d: &[u8]) {
                <$ty>::update_mut(self, d)
            }
            fn bclone(&self) -> Box<dyn HCtx> {
                Box::new(self.clone())
            }
            fn reset(&mut self) {
                <$ty>::reset(self)
            }
            fn finalize(self: Box<Self>) -> Vec<u8> {
                (*self).finalize().to_vec()
            }
            fn finalize_reset(&mut self) -> Vec<u8> {
                <$ty>::finalize_reset(self).to_vec()
            }
        }
    };
}

plain_ctx!(hashing::sha1::Context);
plain_ctx!(hashing::sha2::Context224);
plain_ctx!(hashing::sha2::Context256);
plain_ctx!(hashing::sha2::Context384);
plain_ctx!(hashing::sha2::Context512);
plain_ctx!(hashing::sha2::Context512_224);
plain_ctx!(hashing::sha2::Context512_256);
plain_ctx!(hashing::sha3::Context224);
plain_ctx!(hashing::sha3::Context256);
plain_ctx!(hashing::sha3::Context384);
plain_ctx!(hashing::sha3::Context512);
plain_ctx!(hashing::keccak::Context224);
plain_ctx!(hashing::keccak::Context256);
plain_ctx!(hashing::keccak::Context384);
plain_ctx!(hashing::keccak::Context512);
plain_ctx!(hashing::ripemd160::Context);

// BLAKE2 Context<BITS>: the *_at family is generic, the array-returning family exists for 224/256/384/512
macro_rules! b2_common {
    ($m:ident, $bits:expr, $cty:ty) => {
        fn update(self: Box<Self>, d: &[u8]) -> Box<dyn HCtx> {
            Box::new((*self).update(d))
        }
        fn update_mut(&mut self, d: &[u8]) {
            <$cty>::update_mut(self, d)
        }
        fn bclone(&self) -> Box<dyn HCtx> {
            Box::new(self.clone())
        }
        fn reset(&mut self) {
            <$cty>::reset(self)
        }
        fn reset_with_key(&mut self, k: &[u8]) -> Result<(), String> {
            <$cty>::reset_with_key(self, k);
            Ok(())
        }
        fn finalize_at(self: Box<Self>, len: usize) -> Result<Vec<u8>, String> {
            let mut out = vec![0xA5u8; len];
            (*self).finalize_at(&mut out);
            Ok(out)
        }
        fn finalize_reset_at(&mut self, len: usize) -> Result<Vec<u8>, String> {
            let mut out = vec![0xA5u8; len];
            <$cty>::finalize_reset_at(self, &mut out);
            Ok(out)
        }
        fn finalize_reset_with_key_at(&mut self, k: &[u8], len: usize) -> Result<Vec<u8>, String> {
            let mut out = vec![0xA5u8; len];
            <$cty>::finalize_reset_with_key_at(self, k, &mut out);
            Ok(out)
        }
        fn set_counter(&mut self, t0: u64, t1: u64) -> Result<(), String> {
            self.verif_set_counter(t0 as _, t1 as _);
            Ok(())
        }
        fn output_bits(&self) -> Option<usize> {
            Some($bits)
        }
    };
}

macro_rules! b2_generic {
    ($m:ident, $bits:literal) => {
        impl HCtx for hashing::$m::Context<$bits> {
            b2_common!($m, $bits, hashing::$m::Context<$bits>);
            fn finalize(self: Box<Self>) -> Vec<u8> {
                let mut out = vec![0xA5u8; ($bits + 7) / 8];
                (*self).finalize_at(&mut out);
                out
            }
            fn finalize_reset(&mut self) -> Vec<u8> {
                let mut out = vec![0xA5u8; ($bits + 7) / 8];
                self.finalize_reset_at(&mut out);
                out
            }
            fn finalize_reset_with_key(&mut self, k: &[u8]) -> Result<Vec<u8>, String> {
                let mut out = vec![0xA5u8; ($bits + 7) / 8];
                self.finalize_reset_with_key_at(k, &mut out);
                Ok(out)
            }
        }
    };
}

macro_rules! b2_sized {
    ($m:ident, $bits:literal) => {
        impl HCtx for hashing::$m::Context<$bits> {
            b2_common!($m, $bits, hashing::$m::Context<$bits>);
            fn finalize(self: Box<Self>) -> Vec<u8> {
                (*self).finalize().to_vec()
            }
            fn finalize_reset(&mut self) -> Vec<u8> {
                hashing::$m::Context::<$bits>::finalize_reset(self).to_vec()
            }
            fn finalize_reset_with_key(&mut self, k: &[u8]) -> Result<Vec<u8>, String> {
                Ok(hashing::$m::Context::<$bits>::finalize_reset_with_key(self, k).to_vec())
            }
        }
    };
}

b2_generic!(blake2b, 0);
b2_generic!(blake2b, 8);
b2_generic!(blake2b, 9);
b2_generic!(blake2b, 160);
b2_generic!(blake2b, 255);
b2_generic!(blake2b, 505);
b2_generic!(blake2b, 513);
b2_generic!(blake2b, 520);
b2_sized!(blake2b, 224);
b2_sized!(blake2b, 256);
b2_sized!(blake2b, 384);
b2_sized!(blake2b, 512);

b2_generic!(blake2s, 0);
b2_generic!(blake2s, 8);
b2_generic!(blake2s, 9);
b2_generic!(blake2s, 160);
b2_generic!(blake2s, 255);
b2_generic!(blake2s, 257);
b2_generic!(blake2s, 264);
b2_sized!(blake2s, 224);
b2_sized!(blake2s, 256);

macro_rules! b2_dyn {
    ($m:ident) => {
        impl HCtx for hashing::$m::ContextDyn {
            fn update(self: Box<Self>, d: &[u8]) -> Box<dyn HCtx> {
                Box::new((*self).update(d))
            }
            fn update_mut(&mut self, d: &[u8]) {
                hashing::$m::ContextDyn::update_mut(self, d)
            }
            fn bclone(&self) -> Box<dyn HCtx> {
                Box::new(self.clone())
            }
            fn reset(&mut self) {
                hashing::$m::ContextDyn::reset(self)
            }
            fn reset_with_key(&mut self, k: &[u8]) -> Result<(), String> {
                hashing::$m::ContextDyn::reset_with_key(self, k);
                Ok(())
            }
            fn finalize(self: Box<Self>) -> Vec<u8> {
                let mut out = vec![0xA5u8; self.output_bits() / 8];
                (*self).finalize_at(&mut out);
                out
            }
            fn finalize_reset(&mut self) -> Vec<u8> {
                let mut out = vec![0xA5u8; hashing::$m::ContextDyn::output_bits(self) / 8];
                self.finalize_reset_at(&mut out);
                out
            }
            fn finalize_reset_with_key(&mut self, k: &[u8]) -> Result<Vec<u8>, String> {
                let mut out = vec![0xA5u8; hashing::$m::ContextDyn::output_bits(self) / 8];
                self.finalize_reset_with_key_at(k, &mut out);
                Ok(out)
            }
            fn finalize_at(self: Box<Self>, len: usize) -> Result<Vec<u8>, String> {
                let mut out = vec![0xA5u8; len];
                (*self).finalize_at(&mut out);
                Ok(out)
            }
            fn finalize_reset_at(&mut self, len: usize) -> Result<Vec<u8>, String> {
                let mut out = vec![0xA5u8; len];
                hashing::$m::ContextDyn::finalize_reset_at(self, &mut out);
                Ok(out)
            }
            fn finalize_reset_with_key_at(&mut self, k: &[u8], len: usize) -> Result<Vec<u8>, String> {
                let mut out = vec![0xA5u8; len];
                hashing::$m::ContextDyn::finalize_reset_with_key_at(self, k, &mut out);
                Ok(out)
            }
            fn set_counter(&mut self, t0: u64, t1: u64) -> Result<(), String> {
                self.verif_set_counter(t0 as _, t1 as _);
                Ok(())
            }
            fn output_bits(&self) -> Option<usize> {
                Some(hashing::$m::ContextDyn::output_bits(self))
            }
        }
    };
}
b2_dyn!(blake2b);
b2_dyn!(blake2s);

/// `hnew <kind> [args]`: kind-specific construction
fn new_ctx(kind: &str, args: &[&str]) -> Result<Box<dyn HCtx>, String> {
    Ok(match kind {
        "sha1" => Box::new(hashing::sha1::Sha1::new()),
        "sha224" => Box::new(hashing::sha2::Sha224::new()),
        "sha256" => Box::new(hashing::sha2::Sha256::new()),
        "sha384" => Box::new(hashing::sha2::Sha384::new()),
        "sha512" => Box::new(hashing::sha2::Sha512::new()),
        "sha512_224" => Box::new(hashing::sha2::Sha512Trunc224::new()),
        "sha512_256" => Box::new(hashing::sha2::Sha512Trunc256::new()),
        "sha3_224" => Box::new(hashing::sha3::Sha3_224::new()),
        "sha3_256" => Box::new(hashing::sha3::Sha3_256::new()),
        "sha3_384" => Box::new(hashing::sha3::Sha3_384::new()),
        "sha3_512" => Box::new(hashing::sha3::Sha3_512::new()),
        "keccak224" => Box::new(hashing::keccak::Keccak224::new()),
        "keccak256" => Box::new(hashing::keccak::Keccak256::new()),
        "keccak384" => Box::new(hashing::keccak::Keccak384::new()),
        "keccak512" => Box::new(hashing::keccak::Keccak512::new()),
        "ripemd160" => Box::new(hashing::ripemd160::Ripemd160::new()),
        "b2b" => {
            need(args, 1)?;
            let bits = arg_usize(args[0])?;
            let rest = &args[1..];
            match bits {
                0 => b2b_new::<0>(rest)?,
                8 => b2b_new::<8>(rest)?,
                9 => b2b_new::<9>(rest)?,
                160 => b2b_new::<160>(rest)?,
                224 => b2b_new::<224>(rest)?,
                255 => b2b_new::<255>(rest)?,
                256 => b2b_new::<256>(rest)?,
                384 => b2b_new::<384>(rest)?,
                505 => b2b_new::<505>(rest)?,
                512 => b2b_new::<512>(rest)?,
                513 => b2b_new::<513>(rest)?,
                520 => b2b_new::<520>(rest)?,
                _ => return Err("b2b-bits-not-instantiated".into()),
            }
        }
        "b2s" => {
            need(args, 1)?;
            let bits = arg_usize(args[0])?;
            let rest = &args[1..];
            match bits {
                0 => b2s_new::<0>(rest)?,
                8 => b2s_new::<8>(rest)?,
                9 => b2s_new::<9>(rest)?,
                160 => b2s_new::<160>(rest)?,
                224 => b2s_new::<224>(rest)?,
                255 => b2s_new::<255>(rest)?,
                256 => b2s_new::<256>(rest)?,
                257 => b2s_new::<257>(rest)?,
                264 => b2s_new::<264>(rest)?,
                _ => return Err("b2s-bits-not-instantiated".into()),
            }
        }
        "b2bdyn" => {
            need(args, 1)?;
            let outlen = arg_usize(args[0])?;
            if args.len() > 1 {
                let k = arg_bytes(args[1])?;
                Box::new(hashing::blake2b::ContextDyn::new_keyed(outlen, &k))
            } else {
                Box::new(hashing::blake2b::ContextDyn::new(outlen))
            }
        }
        "b2sdyn" => {
            need(args, 1)?;
            let outlen = arg_usize(args[0])?;
            if args.len() > 1 {
                let k = arg_bytes(args[1])?;
                Box::new(hashing::blake2s::ContextDyn::new_keyed(outlen, &k))
            } else {
                Box::new(hashing::blake2s::ContextDyn::new(outlen))
            }
        }
        _ => return Err(format!("unknown-hash-kind:{}", kind)),
    })
}

fn b2b_new<const BITS: usize>(rest: &[&str]) -> Result<Box<dyn HCtx>, String>
where
    hashing::blake2b::Context<BITS>: HCtx + 'static,
{
    if rest.is_empty() {
        Ok(Box::new(hashing::blake2b::Blake2b::<BITS>::new()))
    } else {
        let k = arg_bytes(rest[0])?;
        if rest.len() > 1 && rest[1] == "ctx" {
            Ok(Box::new(hashing::blake2b::Context::<BITS>::new_keyed(&k)))
        } else {
            Ok(Box::new(hashing::blake2b::Blake2b::<BITS>::new_keyed(&k)))
        }
    }
}

fn b2s_new<const BITS: usize>(rest: &[&str]) -> Result<Box<dyn HCtx>, String>
where
    hashing::blake2s::Context<BITS>: HCtx + 'static,
{
    if rest.is_empty() {
        Ok(Box::new(hashing::blake2s::Blake2s::<BITS>::new()))
    } else {
        let k = arg_bytes(rest[0])?;
        if rest.len() > 1 && rest[1] == "ctx" {
            Ok(Box::new(hashing::blake2s::Context::<BITS>::new_keyed(&k)))
        } else {
            Ok(Box::new(hashing::blake2s::Blake2s::<BITS>::new_keyed(&k)))
        }
    }
}

fn oneshot(name: &str, d: &[u8]) -> Result<Vec<u8>, String> {
    Ok(match name {
        "sha1" => hashing::sha1(d).to_vec(),
        "sha224" => hashing::sha224(d).to_vec(),
        "sha256" => hashing::sha256(d).to_vec(),
        "sha384" => hashing::sha384(d).to_vec(),
        "sha512" => hashing::sha512(d).to_vec(),
        "sha3_224" => hashing::sha3_224(d).to_vec(),
        "sha3_256" => hashing::sha3_256(d).to_vec(),
        "sha3_384" => hashing::sha3_384(d).to_vec(),
        "sha3_512" => hashing::sha3_512(d).to_vec(),
        "keccak224" => hashing::keccak224(d).to_vec(),
        "keccak256" => hashing::keccak256(d).to_vec(),
        "keccak384" => hashing::keccak384(d).to_vec(),
        "keccak512" => hashing::keccak512(d).to_vec(),
        "ripemd160" => hashing::ripemd160(d).to_vec(),
        "blake2b_224" => hashing::blake2b_224(d).to_vec(),
        "blake2b_256" => hashing::blake2b_256(d).to_vec(),
        "blake2b_384" => hashing::blake2b_384(d).to_vec(),
        "blake2b_512" => hashing::blake2b_512(d).to_vec(),
        "blake2s_224" => hashing::blake2s_224(d).to_vec(),
        "blake2s_256" => hashing::blake2s_256(d).to_vec(),
        _ => return Err(format!("unknown-oneshot:{}", name)),
    })
}

fn with_hash<F: FnOnce(&mut Box<dyn HCtx>) -> R>(m: &mut Machine, slot: usize, f: F) -> R {
    match m.slots.get_mut(slot) {
        Some(Some(Obj::Hash(h))) => f(h),
        Some(None) | None => Ok("ABSENT".into()),
        _ => Err("not-a-hash".into()),
    }
}

fn take_hash(m: &mut Machine, slot: usize) -> Result<Option<Box<dyn HCtx>>, String> {
    match m.take(slot) {
        Some(Obj::Hash(h)) => Ok(Some(h)),
        None => Ok(None),
        Some(o) => {
            m.put(slot, o);
            Err("not-a-hash".into())
        }
    }
}

pub fn dispatch(m: &mut Machine, name: &str, args: &[&str]) -> Option<R> {
    Some(match name {
        "hash" => (|| {
            need(args, 2)?;
            let d = arg_bytes(args[1])?;
            Ok(obs_bytes(&oneshot(args[0], &d)?))
        })(),
        // hconsts <variant>: the OUTPUT_BITS and BLOCK_BYTES constants of the algorithm marker type
        "hconsts" => (|| {
            need(args, 1)?;
            use cryptoxide::hashing::*;
            macro_rules! c {
                ($t:ty) => {
                    format!("{}.{}", <$t>::OUTPUT_BITS, <$t>::BLOCK_BYTES)
                };
            }
            Ok(match args[0] {
                "sha1" => c!(sha1::Sha1),
                "sha224" => c!(sha2::Sha224),
                "sha256" => c!(sha2::Sha256),
                "sha384" => c!(sha2::Sha384),
                "sha512" => c!(sha2::Sha512),
                "sha512_224" => c!(sha2::Sha512Trunc224),
                "sha512_256" => c!(sha2::Sha512Trunc256),
                "sha3_224" => c!(sha3::Sha3_224),
                "sha3_256" => c!(sha3::Sha3_256),
                "sha3_384" => c!(sha3::Sha3_384),
                "sha3_512" => c!(sha3::Sha3_512),
                "keccak224" => c!(keccak::Keccak224),
                "keccak256" => c!(keccak::Keccak256),
                "keccak384" => c!(keccak::Keccak384),
                "keccak512" => c!(keccak::Keccak512),
                "ripemd160" => c!(ripemd160::Ripemd160),
                "blake2b_224" => c!(blake2b::Blake2b<224>),
                "blake2b_256" => c!(blake2b::Blake2b<256>),
                "blake2b_384" => c!(blake2b::Blake2b<384>),
                "blake2b_512" => c!(blake2b::Blake2b<512>),
                "blake2s_224" => c!(blake2s::Blake2s<224>),
                "blake2s_256" => c!(blake2s::Blake2s<256>),
                v => return Err(format!("unknown-variant:{}", v)),
            })
        })(),
        // hnew <slot> <kind> [kind args]
        "hnew" => (|| {
            need(args, 2)?;
            let s = arg_slot(args[0])?;
            let c = new_ctx(args[1], &args[2..])?;
            m.put(s, Obj::Hash(c));
            Ok("-".into())
        })(),
        // hwhere <slot>: address of the context object modulo 64 (coverage report of the placement letters, never compared)
        "hwhere" => (|| {
            need(args, 1)?;
            let s = arg_slot(args[0])?;
            match m.slots.get(s) {
                Some(Some(Obj::Hash(h))) => Ok(format!("{}", (&**h as *const dyn HCtx as *const u8 as usize) % 64)),
                _ => Ok("ABSENT".into()),
            }
        })(),
        "update" => (|| {
            need(args, 2)?;
            let s = arg_slot(args[0])?;
            let d = arg_bytes(args[1])?;
            match take_hash(m, s)? {
                None => Ok("ABSENT".into()),
                Some(h) => {
                    let h2 = h.update(&d);
                    m.put(s, Obj::Hash(h2));
                    Ok("-".into())
                }
            }
        })(),
        "update_mut" => (|| {
            need(args, 2)?;
            let s = arg_slot(args[0])?;
            let d = arg_bytes(args[1])?;
            with_hash(m, s, |h| {
                h.update_mut(&d);
                Ok("-".into())
            })
        })(),
        // update_rep <slot> <chunk> <count>: the same chunk fed <count> times (long messages without a long buffer)
        "update_rep" => (|| {
            need(args, 3)?;
            let s = arg_slot(args[0])?;
            let d = arg_bytes(args[1])?;
            let n = arg_usize(args[2])?;
            with_hash(m, s, |h| {
                for _ in 0..n {
                    h.update_mut(&d);
                }
                Ok("-".into())
            })
        })(),
        "hclone" => (|| {
            need(args, 2)?;
            let s = arg_slot(args[0])?;
            let d = arg_slot(args[1])?;
            let c = match m.slots.get(s) {
                Some(Some(Obj::Hash(h))) => h.bclone(),
                Some(None) | None => return Ok("ABSENT".into()),
                _ => return Err("not-a-hash".into()),
            };
            m.put(d, Obj::Hash(c));
            Ok("-".into())
        })(),
        "hreset" => (|| {
            need(args, 1)?;
            let s = arg_slot(args[0])?;
            with_hash(m, s, |h| {
                h.reset();
                Ok("-".into())
            })
        })(),
        "hreset_key" => (|| {
            need(args, 2)?;
            let s = arg_slot(args[0])?;
            let k = arg_bytes(args[1])?;
            with_hash(m, s, |h| {
                h.reset_with_key(&k)?;
                Ok("-".into())
            })
        })(),
        "fin" => (|| {
            need(args, 1)?;
            let s = arg_slot(args[0])?;
            match take_hash(m, s)? {
                None => Ok("ABSENT".into()),
                Some(h) => Ok(obs_bytes(&h.finalize())),
            }
        })(),
        "fin_at" => (|| {
            need(args, 2)?;
            let s = arg_slot(args[0])?;
            let len = arg_usize(args[1])?;
            match take_hash(m, s)? {
                None => Ok("ABSENT".into()),
                Some(h) => Ok(obs_bytes(&h.finalize_at(len)?)),
            }
        })(),
        "fin_reset" => (|| {
            need(args, 1)?;
            let s = arg_slot(args[0])?;
            with_hash(m, s, |h| Ok(obs_bytes(&h.finalize_reset())))
        })(),
        "fin_reset_at" => (|| {
            need(args, 2)?;
            let s = arg_slot(args[0])?;
            let len = arg_usize(args[1])?;
            with_hash(m, s, |h| Ok(obs_bytes(&h.finalize_reset_at(len)?)))
        })(),
        "fin_reset_key" => (|| {
            need(args, 2)?;
            let s = arg_slot(args[0])?;
            let k = arg_bytes(args[1])?;
            with_hash(m, s, |h| Ok(obs_bytes(&h.finalize_reset_with_key(&k)?)))
        })(),
        "fin_reset_key_at" => (|| {
            need(args, 3)?;
            let s = arg_slot(args[0])?;
            let k = arg_bytes(args[1])?;
            let len = arg_usize(args[2])?;
            with_hash(m, s, |h| Ok(obs_bytes(&h.finalize_reset_with_key_at(&k, len)?)))
        })(),
        // peek: digest of a clone (the object itself is untouched)
        "hpeek" => (|| {
            need(args, 1)?;
            let s = arg_slot(args[0])?;
            with_hash(m, s, |h| Ok(obs_bytes(&h.bclone().finalize())))
        })(),
        // probe: observational fingerprint = digests of clone, clone+1 byte, clone+<n> bytes
        "hprobe" => (|| {
            need(args, 2)?;
            let s = arg_slot(args[0])?;
            let n = arg_usize(args[1])?;
            with_hash(m, s, |h| {
                let a = h.bclone().finalize();
                let mut c1 = h.bclone();
                c1.update_mut(&[0x5a]);
                let b = c1.finalize();
                let mut c2 = h.bclone();
                let big: Vec<u8> = (0..n).map(|i| pat_byte(6, i as u64)).collect();
                c2.update_mut(&big);
                let c = c2.finalize();
                Ok(format!("{}.{}.{}", obs_bytes(&a), obs_bytes(&b), obs_bytes(&c)))
            })
        })(),
        "hsetctr" => (|| {
            need(args, 3)?;
            let s = arg_slot(args[0])?;
            let t0 = arg_u64(args[1])?;
            let t1 = arg_u64(args[2])?;
            with_hash(m, s, |h| {
                h.set_counter(t0, t1)?;
                Ok("-".into())
            })
        })(),
        "hbits" => (|| {
            need(args, 1)?;
            let s = arg_slot(args[0])?;
            with_hash(m, s, |h| Ok(format!("{}", h.output_bits().ok_or("unsupported")?)))
        })(),
        _ => return None,
    })
}
