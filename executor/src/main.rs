//! cx-exec: operation interpreter over the real cryptoxide code.
//!
//! Protocol (text, one program per line):
//!   request : <id> <op>;<op>;...      op := name arg*   (space separated)
//!   response: <id> <obs>;<obs>;...    obs := - | <hex> | T | F | PANIC | ERR:<tag> | ABSENT | composite
//! args: decimal / 0x integers, `h:<hex>`, `p:<k>:<off>:<len>` (pattern bytes), optional `@<a>:` prefix
//! placing the bytes `a` bytes after a 64-byte aligned address, `s<N>` slot numbers.
//! Every op runs under catch_unwind; a program starts from an empty slot table.

mod ops_cipher;
mod ops_ct;
mod ops_curve;
mod ops_hash;
mod ops_kdf;
mod ops_mac;
mod util;

use std::io::{BufRead, Write};
use std::panic::{catch_unwind, AssertUnwindSafe};

pub use util::*;

pub enum Obj {
    Hash(Box<dyn ops_hash::HCtx>),
    Digest(Box<dyn ops_mac::LDigest>),
    Mac(Box<dyn ops_mac::LMac>),
    Cipher(Box<dyn ops_cipher::SCipher>),
    Drg(Box<dyn ops_cipher::DrgObj>),
    Aead(Box<dyn ops_cipher::AeadObj>),
}

pub struct Machine {
    pub slots: Vec<Option<Obj>>,
    /// live filler allocations (op heappad): they move where later heap objects of the program are placed
    pub pads: Vec<Vec<u8>>,
}

impl Machine {
    pub fn new() -> Self {
        let mut slots = Vec::new();
        for _ in 0..16 {
            slots.push(None);
        }
        Machine { slots, pads: Vec::new() }
    }
    pub fn take(&mut self, i: usize) -> Option<Obj> {
        self.slots.get_mut(i).and_then(|s| s.take())
    }
    pub fn put(&mut self, i: usize, o: Obj) {
        while self.slots.len() <= i {
            self.slots.push(None);
        }
        self.slots[i] = Some(o);
    }
}

static OPS_RUN: std::sync::atomic::AtomicU64 = std::sync::atomic::AtomicU64::new(0);

fn run_op(m: &mut Machine, toks: &[&str]) -> String {
    OPS_RUN.fetch_add(1, std::sync::atomic::Ordering::Relaxed);
    if toks.is_empty() {
        return "ERR:empty".to_string();
    }
    let name = toks[0];
    let args = &toks[1..];
    // machinery self-test ops (tools/selftest_execpool.py): a process death and a hang must be attributed to the right program
    match name {
        "selftest_abort" => std::process::abort(),
        "selftest_hang" => loop {
            std::thread::sleep(std::time::Duration::from_millis(50));
        },
        // dies only if this process has already run at least <n> ops: a death that depends on the history of the process
        "selftest_abort_after" => {
            let n: u64 = args.get(0).and_then(|x| x.parse().ok()).unwrap_or(0);
            if OPS_RUN.load(std::sync::atomic::Ordering::Relaxed) >= n {
                std::process::abort();
            }
            return "-".to_string();
        }
        // stk16 is handled by the program runner (it must be the first op); anywhere else it is a no-op
        "stk16" => return "-".to_string(),
        "heappad" => {
            let n: usize = args.get(0).and_then(|x| x.parse().ok()).unwrap_or(40);
            m.pads.push(vec![0x5au8; n]);
            return "-".to_string();
        }
        // answers differently if this process has already run at least <n> ops: a wrong answer that depends on the process history
        "selftest_wrong_after" => {
            let n: u64 = args.get(0).and_then(|x| x.parse().ok()).unwrap_or(0);
            return if OPS_RUN.load(std::sync::atomic::Ordering::Relaxed) >= n { "X".to_string() } else { "-".to_string() };
        }
        "selftest_sleep" => {
            let ms: u64 = args.get(0).and_then(|x| x.parse().ok()).unwrap_or(10);
            std::thread::sleep(std::time::Duration::from_millis(ms));
            return "-".to_string();
        }
        _ => {}
    }
    let r = catch_unwind(AssertUnwindSafe(|| {
        if let Some(r) = ops_hash::dispatch(m, name, args) {
            return r;
        }
        if let Some(r) = ops_mac::dispatch(m, name, args) {
            return r;
        }
        if let Some(r) = ops_cipher::dispatch(m, name, args) {
            return r;
        }
        if let Some(r) = ops_kdf::dispatch(m, name, args) {
            return r;
        }
        if let Some(r) = ops_curve::dispatch(m, name, args) {
            return r;
        }
        if let Some(r) = ops_ct::dispatch(m, name, args) {
            return r;
        }
        Err(format!("unknown-op:{}", name))
    }));
    match r {
        Ok(Ok(s)) => s,
        Ok(Err(e)) => format!("ERR:{}", e),
        Err(_) => "PANIC".to_string(),
    }
}

/// Address-space randomisation is switched off for the executor (personality ADDR_NO_RANDOMIZE, then re-exec): where the stack and the
/// heap lie is then the same in every process, so that a fault that depends on an address (an alignment assumption) reproduces in a
/// fresh process. If the kernel refuses, the executor runs as it is.
fn fix_layout() {
    use std::os::unix::process::CommandExt;
    extern "C" {
        fn personality(persona: std::os::raw::c_ulong) -> std::os::raw::c_int;
    }
    const ADDR_NO_RANDOMIZE: std::os::raw::c_ulong = 0x0040000;
    if std::env::var_os("CX_EXEC_LAYOUT_FIXED").is_some() {
        return;
    }
    unsafe {
        let cur = personality(0xffff_ffff);
        if cur < 0 || (cur as std::os::raw::c_ulong) & ADDR_NO_RANDOMIZE != 0 {
            return;
        }
        if personality(cur as std::os::raw::c_ulong | ADDR_NO_RANDOMIZE) < 0 {
            return;
        }
    }
    if let Ok(exe) = std::env::current_exe() {
        let _ = std::process::Command::new(exe).args(std::env::args_os().skip(1)).env("CX_EXEC_LAYOUT_FIXED", "1").exec();
    }
}

extern "C" fn tramp(p: *mut u8) {
    let f: &mut &mut dyn FnMut() = unsafe { &mut *(p as *mut &mut dyn FnMut()) };
    f();
}

/// runs f with the stack pointer moved down by exactly 16 bytes: every stack object of the callee whose alignment is at most 16 lands
/// at the other residue modulo 32
#[cfg(target_arch = "x86_64")]
fn call_shifted16(f: &mut dyn FnMut()) {
    let mut fat: &mut dyn FnMut() = f;
    let p = &mut fat as *mut &mut dyn FnMut() as *mut u8;
    unsafe {
        std::arch::asm!("sub rsp, 16", "call {t}", "add rsp, 16", t = in(reg) tramp as extern "C" fn(*mut u8), in("rdi") p, clobber_abi("C"));
    }
}

#[cfg(not(target_arch = "x86_64"))]
fn call_shifted16(f: &mut dyn FnMut()) {
    f()
}

fn run_program(rest: &str, resp: &mut String) {
    let mut m = Machine::new();
    let mut first = true;
    for op in rest.split(';') {
        let op = op.trim();
        if op.is_empty() {
            continue;
        }
        let toks: Vec<&str> = op.split_whitespace().collect();
        let o = run_op(&mut m, &toks);
        if !first {
            resp.push(';');
        }
        first = false;
        resp.push_str(&o);
    }
}

fn main() {
    fix_layout();
    std::panic::set_hook(Box::new(|_| {}));
    let stdin = std::io::stdin();
    let stdout = std::io::stdout();
    let mut out = std::io::BufWriter::with_capacity(1 << 16, stdout.lock());
    let mut line = String::new();
    let mut input = std::io::BufReader::with_capacity(1 << 16, stdin.lock());
    let mut last_flush = std::time::Instant::now();
    loop {
        line.clear();
        let n = input.read_line(&mut line).unwrap_or(0);
        if n == 0 {
            break;
        }
        let l = line.trim_end_matches(|c| c == '\n' || c == '\r');
        if l.is_empty() {
            continue;
        }
        if l == "FLUSH" {
            let _ = out.flush();
            continue;
        }
        let (id, rest) = match l.find(' ') {
            Some(i) => (&l[..i], &l[i + 1..]),
            None => (l, ""),
        };
        let mut resp = String::with_capacity(256);
        resp.push_str(id);
        resp.push(' ');
        if rest.trim_start().starts_with("stk16") {
            call_shifted16(&mut || run_program(rest, &mut resp));
        } else {
            run_program(rest, &mut resp);
        }
        resp.push('\n');
        let _ = out.write_all(resp.as_bytes());
        // the driver sends FLUSH at the end of each batch; also flush when the reader would block, and at least every 200 ms
        // so that the driver's watchdog sees progress while slow programs are being executed
        if input.buffer().is_empty() || last_flush.elapsed().as_millis() > 200 {
            let _ = out.flush();
            last_flush = std::time::Instant::now();
        }
    }
    let _ = out.flush();
}
