//! cx-exec: operation interpreter over the real cryptoxide code.
//!
//! Protocol (text, one program per line):
//!   request : <id> <op>;<op>;...      op := name arg*   (space separated)
//!   response: <id> <obs>;<obs>;...    obs := - | <hex> | T | F | PANIC | ERR:<tag> | ABSENT | composite
//! args: decimal / 0x integers, `h:<hex>`, `p:<k>:<off>:<len>` (pattern bytes), optional `@<a>:` prefix
//! placing the bytes `a` bytes after a 64-byte aligned address, `s<N>` slot numbers.
//! Every op runs under catch_unwind; a program starts from an empty slot table.

mod ops_cipher;
mod ops_ct;
mod ops_curve;
mod ops_hash;
mod ops_kdf;
mod ops_mac;
mod util;

use std::io::{BufRead, Write};
use std::panic::{catch_unwind, AssertUnwindSafe};

pub use util::*;

pub enum Obj {
    Hash(Box<dyn ops_hash::HCtx>),
    Digest(Box<dyn ops_mac::LDigest>),
    Mac(Box<dyn ops_mac::LMac>),
    Cipher(Box<dyn ops_cipher::SCipher>),
    Drg(Box<dyn ops_cipher::DrgObj>),
    Aead(Box<dyn ops_cipher::AeadObj>),
}

pub struct Machine {
    pub slots: Vec<Option<Obj>>,
}

impl Machine {
    pub fn new() -> Self {
        let mut slots = Vec::new();
        for _ in 0..16 {
            slots.push(None);
        }
        Machine { slots }
    }
    pub fn take(&mut self, i: usize) -> Option<Obj> {
        self.slots.get_mut(i).and_then(|s| s.take())
    }
    pub fn put(&mut self, i: usize, o: Obj) {
        while self.slots.len() <= i {
            self.slots.push(None);
        }
        self.slots[i] = Some(o);
    }
}

fn run_op(m: &mut Machine, toks: &[&str]) -> String {
    if toks.is_empty() {
        return "ERR:empty".to_string();
    }
    let name = toks[0];
    let args = &toks[1..];
    // machinery self-test ops (tools/selftest_execpool.py): a process death and a hang must be attributed to the right program
    match name {
        "selftest_abort" => std::process::abort(),
        "selftest_hang" => loop {
            std::thread::sleep(std::time::Duration::from_millis(50));
        },
        "selftest_sleep" => {
            let ms: u64 = args.get(0).and_then(|x| x.parse().ok()).unwrap_or(10);
            std::thread::sleep(std::time::Duration::from_millis(ms));
            return "-".to_string();
        }
        _ => {}
    }
    let r = catch_unwind(AssertUnwindSafe(|| {
        if let Some(r) = ops_hash::dispatch(m, name, args) {
            return r;
        }
        if let Some(r) = ops_mac::dispatch(m, name, args) {
            return r;
        }
        if let Some(r) = ops_cipher::dispatch(m, name, args) {
            return r;
        }
        if let Some(r) = ops_kdf::dispatch(m, name, args) {
            return r;
        }
        if let Some(r) = ops_curve::dispatch(m, name, args) {
            return r;
        }
        if let Some(r) = ops_ct::dispatch(m, name, args) {
            return r;
        }
        Err(format!("unknown-op:{}", name))
    }));
    match r {
        Ok(Ok(s)) => s,
        Ok(Err(e)) => format!("ERR:{}", e),
        Err(_) => "PANIC".to_string(),
    }
}

fn main() {
    std::panic::set_hook(Box::new(|_| {}));
    let stdin = std::io::stdin();
    let stdout = std::io::stdout();
    let mut out = std::io::BufWriter::with_capacity(1 << 16, stdout.lock());
    let mut line = String::new();
    let mut input = std::io::BufReader::with_capacity(1 << 16, stdin.lock());
    let mut last_flush = std::time::Instant::now();
    loop {
        line.clear();
        let n = input.read_line(&mut line).unwrap_or(0);
        if n == 0 {
            break;
        }
        let l = line.trim_end_matches(|c| c == '\n' || c == '\r');
        if l.is_empty() {
            continue;
        }
        if l == "FLUSH" {
            let _ = out.flush();
            continue;
        }
        let (id, rest) = match l.find(' ') {
            Some(i) => (&l[..i], &l[i + 1..]),
            None => (l, ""),
        };
        let mut m = Machine::new();
        let mut resp = String::with_capacity(256);
        resp.push_str(id);
        resp.push(' ');
        let mut first = true;
        for op in rest.split(';') {
            let op = op.trim();
            if op.is_empty() {
                continue;
            }
            let toks: Vec<&str> = op.split_whitespace().collect();
            let o = run_op(&mut m, &toks);
            if !first {
                resp.push(';');
            }
            first = false;
            resp.push_str(&o);
        }
        resp.push('\n');
        let _ = out.write_all(resp.as_bytes());
        // the driver sends FLUSH at the end of each batch; also flush when the reader would block, and at least every 200 ms
        // so that the driver's watchdog sees progress while slow programs are being executed
        if input.buffer().is_empty() || last_flush.elapsed().as_millis() > 200 {
            let _ = out.flush();
            last_flush = std::time::Instant::now();
        }
    }
    let _ = out.flush();
}
