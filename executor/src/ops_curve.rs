//! curve25519 / x25519 / ed25519 and the field / scalar / group stack machines

use crate::*;
use cryptoxide::curve25519::{curve25519, curve25519_base, Fe, Ge, GePartial, Scalar};
use cryptoxide::{ed25519, x25519};
use std::convert::TryFrom;

fn b32(a: &str) -> Result<[u8; 32], String> {
    arr::<32>(&arg_bytes(a)?)
}
fn b64(a: &str) -> Result<[u8; 64], String> {
    arr::<64>(&arg_bytes(a)?)
}

/// field stack machine. tokens:
///   <hex64>  push Fe::from_bytes ; zero one sqrtm1 d d2 (constants)
///   add sub mul (binary, operands a b -> a op b) ; neg sq sq2 inv pow25523 ; sqn:<k> ; ms121666 ms9 (hooks: mul_small)
///   dup swap drop
///   observations (do not pop): bytes isneg isnz ; eq (binary, pops nothing: top == second)
fn fe_machine(toks: &[&str]) -> R {
    let mut st: Vec<Fe> = Vec::new();
    let mut obs: Vec<String> = Vec::new();
    macro_rules! pop {
        () => {
            st.pop().ok_or("fe-stack-underflow")?
        };
    }
    for t in toks {
        match *t {
            "zero" => st.push(Fe::ZERO),
            "one" => st.push(Fe::ONE),
            "sqrtm1" => st.push(Fe::SQRTM1),
            "d" => st.push(Fe::D),
            "d2" => st.push(Fe::D2),
            "add" => {
                let b = pop!();
                let a = pop!();
                st.push(&a + &b)
            }
            "sub" => {
                let b = pop!();
                let a = pop!();
                st.push(&a - &b)
            }
            "mul" => {
                let b = pop!();
                let a = pop!();
                st.push(&a * &b)
            }
            "neg" => {
                let a = pop!();
                st.push(-&a)
            }
            "sq" => {
                let a = pop!();
                st.push(a.square())
            }
            "sq2" => {
                let a = pop!();
                st.push(a.square_and_double())
            }
            "inv" => {
                let a = pop!();
                st.push(a.invert())
            }
            "pow25523" => {
                let a = pop!();
                st.push(a.pow25523())
            }
            // by-value operator impls exist only in the 32-bit backend; elsewhere the tokens use the by-reference ones
            "addv" => {
                let b = pop!();
                let a = pop!();
                #[cfg(feature = "force32")]
                st.push(a + b);
                #[cfg(not(feature = "force32"))]
                st.push(&a + &b);
            }
            "subv" => {
                let b = pop!();
                let a = pop!();
                #[cfg(feature = "force32")]
                st.push(a - b);
                #[cfg(not(feature = "force32"))]
                st.push(&a - &b);
            }
            "mulv" => {
                let b = pop!();
                let a = pop!();
                #[cfg(feature = "force32")]
                st.push(a * b);
                #[cfg(not(feature = "force32"))]
                st.push(&a * &b);
            }
            "ms121666" => {
                let a = pop!();
                st.push(cryptoxide::curve25519::verif::fe_mul_small_121666(&a))
            }
            "ms9" => {
                let a = pop!();
                st.push(cryptoxide::curve25519::verif::fe_mul_small_9(&a))
            }
            "dup" => {
                let a = st.last().ok_or("fe-stack-underflow")?.clone();
                st.push(a)
            }
            "swap" => {
                let b = pop!();
                let a = pop!();
                st.push(b);
                st.push(a)
            }
            "drop" => {
                pop!();
            }
            "bytes" => obs.push(hex(&st.last().ok_or("fe-stack-underflow")?.to_bytes())),
            "isneg" => obs.push(obs_bool(st.last().ok_or("fe-stack-underflow")?.is_negative())),
            "isnz" => obs.push(obs_bool(st.last().ok_or("fe-stack-underflow")?.is_nonzero())),
            "eq" => {
                let n = st.len();
                if n < 2 {
                    return Err("fe-stack-underflow".into());
                }
                obs.push(obs_bool(st[n - 1] == st[n - 2]))
            }
            // != (and, on the 64-bit backend, the constant-time ct_ne / ct_eq impls behind it)
            "ne" => {
                let n = st.len();
                if n < 2 {
                    return Err("fe-stack-underflow".into());
                }
                #[cfg(not(feature = "force32"))]
                {
                    use cryptoxide::constant_time::CtEqual;
                    let a = (&st[n - 1]).ct_ne(&st[n - 2]).is_true();
                    let b = (&st[n - 1]).ct_eq(&st[n - 2]).is_false();
                    obs.push(obs_bool(a && b && (st[n - 1] != st[n - 2])) + if a == b { "" } else { "!" });
                }
                #[cfg(feature = "force32")]
                obs.push(obs_bool(st[n - 1] != st[n - 2]));
            }
            _ => {
                if let Some(k) = t.strip_prefix("sqn:") {
                    let k: usize = k.parse().map_err(|_| "bad-sqn")?;
                    let a = pop!();
                    st.push(a.square_repeatdly(k))
                } else {
                    let b = arg_bytes(&format!("h:{}", t))?;
                    st.push(Fe::from_bytes(&arr::<32>(&b)?))
                }
            }
        }
    }
    Ok(if obs.is_empty() { "-".into() } else { obs.join(".") })
}

/// group stack machine over `Ge`. tokens:
///   dec:<hex64> (Ge::from_bytes; observation T/F, pushes on success) ; base:<hex64 scalar> ; zero
///   dbl add sub (a b -> a +/- b through to_cached) ; dup swap drop
///   observations: enc (Ge::to_bytes of top) ; penc (to_partial().to_bytes()) ; dblp (double_partial().to_bytes())
///                 pdbl (to_partial().double().to_bytes()) ; pdblf (to_partial().double_full().to_bytes())
///   dsm:<a>:<b>  pops A, observation = double_scalarmult_vartime(a, A, b).to_bytes()
fn ge_machine(toks: &[&str]) -> R {
    let mut st: Vec<Ge> = Vec::new();
    let mut obs: Vec<String> = Vec::new();
    macro_rules! pop {
        () => {
            st.pop().ok_or("ge-stack-underflow")?
        };
    }
    macro_rules! top {
        () => {
            st.last().ok_or("ge-stack-underflow")?
        };
    }
    fn sc(h: &str) -> Result<Scalar, String> {
        let b = arg_bytes(&format!("h:{}", h))?;
        Ok(Scalar::from_bytes(&arr::<32>(&b)?))
    }
    for t in toks {
        match *t {
            "zero" => st.push(Ge::ZERO),
            "dbl" => {
                let a = pop!();
                st.push(a.double())
            }
            "add" => {
                let b = pop!();
                let a = pop!();
                st.push((&a + &b.to_cached()).to_full())
            }
            "sub" => {
                let b = pop!();
                let a = pop!();
                st.push((&a - &b.to_cached()).to_full())
            }
            // the public mixed-addition impls with the only publicly constructible GePrecomp (the identity)
            "addpz" => {
                let a = pop!();
                st.push((&a + &cryptoxide::curve25519::GePrecomp::ZERO).to_full())
            }
            "subpz" => {
                let a = pop!();
                st.push((&a - &cryptoxide::curve25519::GePrecomp::ZERO).to_full())
            }
            "subpzv" => {
                let a = pop!();
                st.push((a - cryptoxide::curve25519::GePrecomp::ZERO).to_full())
            }
            // by-value Sub<GeCached> for Ge
            "subv" => {
                let b = pop!();
                let a = pop!();
                st.push((a - b.to_cached()).to_full())
            }
            "dup" => {
                let a = top!().clone();
                st.push(a)
            }
            "swap" => {
                let b = pop!();
                let a = pop!();
                st.push(b);
                st.push(a)
            }
            "drop" => {
                pop!();
            }
            "enc" => obs.push(hex(&top!().to_bytes())),
            "penc" => obs.push(hex(&top!().clone().to_partial().to_bytes())),
            "dblp" => obs.push(hex(&top!().double_partial().to_bytes())),
            "pdbl" => obs.push(hex(&top!().clone().to_partial().double().to_bytes())),
            "pdblf" => obs.push(hex(&top!().clone().to_partial().double_full().to_bytes())),
            // the completed-point (P1P1) results of both doubling entry points, converted both ways
            "dp1f" => obs.push(hex(&top!().double_p1p1().to_full().to_bytes())),
            "dp1p" => obs.push(hex(&top!().double_p1p1().to_partial().to_bytes())),
            "pdp1f" => obs.push(hex(&top!().clone().to_partial().double_p1p1().to_full().to_bytes())),
            "pdp1p" => obs.push(hex(&top!().clone().to_partial().double_p1p1().to_partial().to_bytes())),
            "pzero" => obs.push(hex(&GePartial::ZERO.to_bytes())),
            _ => {
                if let Some(h) = t.strip_prefix("dec:") {
                    let b = arg_bytes(&format!("h:{}", h))?;
                    match Ge::from_bytes(&arr::<32>(&b)?) {
                        Some(g) => {
                            st.push(g);
                            obs.push("T".into())
                        }
                        None => obs.push("F".into()),
                    }
                } else if let Some(h) = t.strip_prefix("base:") {
                    st.push(Ge::scalarmult_base(&sc(h)?))
                } else if let Some(r) = t.strip_prefix("dsm:") {
                    let i = r.find(':').ok_or("bad-dsm")?;
                    let a = sc(&r[..i])?;
                    let b = sc(&r[i + 1..])?;
                    let p = pop!();
                    let res: GePartial = GePartial::double_scalarmult_vartime(&a, p, &b);
                    obs.push(hex(&res.to_bytes()))
                } else {
                    return Err(format!("bad-ge-token:{}", t));
                }
            }
        }
    }
    Ok(if obs.is_empty() { "-".into() } else { obs.join(".") })
}

pub fn dispatch(_m: &mut Machine, name: &str, args: &[&str]) -> Option<R> {
    Some(match name {
        "curve25519" => (|| {
            need(args, 2)?;
            Ok(hex(&curve25519(&b32(args[0])?, &b32(args[1])?)))
        })(),
        "curve25519_base" => (|| {
            need(args, 1)?;
            Ok(hex(&curve25519_base(&b32(args[0])?)))
        })(),
        "x25519_dh" => (|| {
            need(args, 2)?;
            let n = x25519::SecretKey::from(b32(args[0])?);
            let p = x25519::PublicKey::from(b32(args[1])?);
            let s: [u8; 32] = x25519::dh(&n, &p).into();
            Ok(hex(&s))
        })(),
        "x25519_base" => (|| {
            need(args, 1)?;
            let n = x25519::SecretKey::from(b32(args[0])?);
            let p: [u8; 32] = x25519::base(&n).into();
            Ok(hex(&p))
        })(),
        // x25519_views <32 bytes>: the remaining conversions of the three wrapper types (AsRef<[u8]>, From<[u8;32]> for SharedSecret,
        // Into<[u8;32]> for SecretKey, derived == on PublicKey): each must give back exactly the bytes put in
        "x25519_views" => (|| {
            need(args, 1)?;
            let b = b32(args[0])?;
            let sk = x25519::SecretKey::from(b);
            let pk = x25519::PublicKey::from(b);
            let ss = x25519::SharedSecret::from(b);
            let a: &[u8] = sk.as_ref();
            let c: &[u8] = pk.as_ref();
            let d: &[u8] = ss.as_ref();
            let mut o = String::new();
            o.push_str(&hex(a));
            o.push('.');
            o.push_str(&hex(c));
            o.push('.');
            o.push_str(&hex(d));
            o.push('.');
            let mut b2 = b;
            b2[7] ^= 1;
            o.push_str(&obs_bool(pk == x25519::PublicKey::from(b)));
            o.push_str(&obs_bool(pk == x25519::PublicKey::from(b2)));
            let back: [u8; 32] = sk.into();
            o.push('.');
            o.push_str(&hex(&back));
            Ok(o)
        })(),
        // x25519 byte wrappers: TryFrom<&[u8]> accepts exactly 32 bytes
        "x25519_tryfrom" => (|| {
            need(args, 1)?;
            let b = arg_bytes(args[0])?;
            let a = x25519::SecretKey::try_from(&b[..]).is_ok();
            let c = x25519::PublicKey::try_from(&b[..]).is_ok();
            let d = x25519::SharedSecret::try_from(&b[..]).is_ok();
            // the bytes each wrapper holds afterwards (a conversion must not alter them)
            let mut o = format!("{}{}{}", obs_bool(a), obs_bool(c), obs_bool(d));
            if let Ok(x) = x25519::SecretKey::try_from(&b[..]) {
                o.push('.');
                o.push_str(&hex(x.as_ref()));
            }
            if let Ok(x) = x25519::PublicKey::try_from(&b[..]) {
                o.push('.');
                o.push_str(&hex(x.as_ref()));
            }
            if let Ok(x) = x25519::SharedSecret::try_from(&b[..]) {
                o.push('.');
                o.push_str(&hex(x.as_ref()));
            }
            Ok(o)
        })(),
        // x25519_dh_try <k> <u>: dh with both keys built through TryFrom<&[u8]>
        "x25519_dh_try" => (|| {
            need(args, 2)?;
            let k = arg_bytes(args[0])?;
            let u = arg_bytes(args[1])?;
            let n = x25519::SecretKey::try_from(&k[..]).map_err(|_| "need-32-bytes".to_string())?;
            let p = x25519::PublicKey::try_from(&u[..]).map_err(|_| "need-32-bytes".to_string())?;
            let s: [u8; 32] = x25519::dh(&n, &p).into();
            let q: [u8; 32] = x25519::base(&n).into();
            Ok(format!("{}.{}", hex(&s), hex(&q)))
        })(),
        // x25519_iter <k> <u> <n>: RFC 7748 section 5.2 iteration
        "x25519_iter" => (|| {
            need(args, 3)?;
            let mut k = b32(args[0])?;
            let mut u = b32(args[1])?;
            let n = arg_usize(args[2])?;
            for _ in 0..n {
                let r = curve25519(&k, &u);
                u = k;
                k = r;
            }
            Ok(hex(&k))
        })(),
        // ed_keypair <seed32> -> <keypair64>.<public32>
        "ed_keypair" => (|| {
            need(args, 1)?;
            let (kp, pk) = ed25519::keypair(&b32(args[0])?);
            let kpriv = ed25519::keypair_private(&kp);
            let kpub = ed25519::keypair_public(&kp);
            Ok(format!("{}.{}.{}.{}", hex(&kp), hex(&pk), hex(kpriv), hex(kpub)))
        })(),
        "ed_sign" => (|| {
            need(args, 2)?;
            let msg = arg_bytes(args[0])?;
            let kp = arg_bytes(args[1])?;
            let kp: &[u8; 64] = <&[u8; 64]>::try_from(kp.as_slice()).map_err(|_| "need-64-bytes".to_string())?;
            Ok(hex(&ed25519::signature(&msg, kp)))
        })(),
        "ed_sign_ext" => (|| {
            need(args, 2)?;
            let msg = arg_bytes(args[0])?;
            Ok(hex(&ed25519::signature_extended(&msg, &b64(args[1])?)))
        })(),
        "ed_ext_to_pub" => (|| {
            need(args, 1)?;
            Ok(hex(&ed25519::extended_to_public(&b64(args[0])?)))
        })(),
        // the key and signature arrays are used where the argument parser placed them (`@k:` prefix), not copied
        "ed_verify" => (|| {
            need(args, 3)?;
            let msg = arg_bytes(args[0])?;
            let pk = arg_bytes(args[1])?;
            let sig = arg_bytes(args[2])?;
            let pk: &[u8; 32] = <&[u8; 32]>::try_from(pk.as_slice()).map_err(|_| "need-32-bytes".to_string())?;
            let sig: &[u8; 64] = <&[u8; 64]>::try_from(sig.as_slice()).map_err(|_| "need-64-bytes".to_string())?;
            Ok(obs_bool(ed25519::verify(&msg, pk, sig)))
        })(),
        // ed_exchange <public32> <seed32>
        "ed_exchange" => (|| {
            need(args, 2)?;
            Ok(hex(&ed25519::exchange(&b32(args[0])?, &b32(args[1])?)))
        })(),
        "fe" => fe_machine(args),
        "ge" => ge_machine(args),
        "sc_reduce" => (|| {
            need(args, 1)?;
            Ok(hex(&Scalar::reduce_from_wide_bytes(&b64(args[0])?).to_bytes()))
        })(),
        "sc_canon" => (|| {
            need(args, 1)?;
            Ok(match Scalar::from_bytes_canonical(&b32(args[0])?) {
                Some(s) => format!("T.{}", hex(&s.to_bytes())),
                None => "F".to_string(),
            })
        })(),
        // hooks: (a*b + c) mod L, and the signed digit recodings used by the two scalar multiplications
        "sc_muladd" => (|| {
            need(args, 3)?;
            let a = Scalar::from_bytes(&b32(args[0])?);
            let b = Scalar::from_bytes(&b32(args[1])?);
            let c = Scalar::from_bytes(&b32(args[2])?);
            Ok(hex(&cryptoxide::curve25519::verif::scalar_muladd(&a, &b, &c).to_bytes()))
        })(),
        "sc_nibbles" => (|| {
            need(args, 1)?;
            let d = cryptoxide::curve25519::verif::scalar_nibbles(&Scalar::from_bytes(&b32(args[0])?));
            Ok(hex(&d.iter().map(|x| *x as u8).collect::<Vec<u8>>()))
        })(),
        "sc_slide" => (|| {
            need(args, 1)?;
            let d = cryptoxide::curve25519::verif::scalar_slide(&Scalar::from_bytes(&b32(args[0])?));
            Ok(hex(&d.iter().map(|x| *x as u8).collect::<Vec<u8>>()))
        })(),
        // the two scalar constants and the derived == / clone of Scalar
        "sc_consts" => (|| {
            let z = Scalar::ZERO;
            let mut o = hex(&z.to_bytes());
            #[cfg(not(feature = "force32"))]
            {
                o.push('.');
                o.push_str(&hex(&Scalar::ONE.to_bytes()));
            }
            #[cfg(feature = "force32")]
            {
                o.push('.');
                o.push_str(&hex(&Scalar::from_bytes(&{
                    let mut b = [0u8; 32];
                    b[0] = 1;
                    b
                })
                .to_bytes()));
            }
            let a = Scalar::from_bytes(&[7u8; 32]);
            let b = a.clone();
            o.push('.');
            o.push_str(&obs_bool(a == b));
            o.push_str(&obs_bool(a == z));
            Ok(o)
        })(),
        "sc_roundtrip" => (|| {
            need(args, 1)?;
            Ok(hex(&Scalar::from_bytes(&b32(args[0])?).to_bytes()))
        })(),
        _ => return None,
    })
}
